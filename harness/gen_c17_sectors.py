"""Generates the CrossHair harness for the sector-enumeration clause of C17.

One condition per (symmetry, number of indices, presence mask of the concrete indices); the first
index's presence mask, every dual flag and the total charge are symbolic.  Expected sectors are the
brute-force product filtered with the symmetry's own combine/sign (whose laws are the other half
of C17), so no convention is imported."""
import itertools

HEADER = '''import itertools
from symmray.abelian_core import AbelianArray, BlockIndex
from symmray.symmetries import get_symmetry


def _check(symname, cms, duals, q):
    if not all(cms):
        return True
    s = get_symmetry(symname)
    x = AbelianArray([BlockIndex(cm, dual=d) for cm, d in zip(cms, duals)], charge=q, symmetry=symname)
    got = list(x.gen_valid_sectors())
    want = [sec for sec in itertools.product(*[sorted(cm) for cm in cms])
            if s.combine(*[s.sign(c, d) for c, d in zip(sec, duals)]) == q]
    ok = len(set(got)) == len(got) and sorted(got) == sorted(want)
    ok = ok and all(x.is_valid_sector(sec) for sec in got)
    return ok

'''

UNI = {"Z2": [0, 1], "Z4": [0, 1, 2, 3], "U1": [-1, 0, 2], "Z2Z2": [(0, 0), (0, 1), (1, 1)],
       "U1U1": [(0, 0), (0, 1), (1, -1)]}


def masks(n):
    return [m for m in itertools.product((False, True), repeat=n) if any(m)]


def generate(ndims, syms=("Z2", "Z4", "U1", "Z2Z2", "U1U1"), nsym_idx=1, conc_universe=None):
    out = [HEADER]
    n = 0
    for sym in syms:
        uni = UNI[sym]
        k = len(uni)
        for nd in ndims:
            nconc = max(0, nd - nsym_idx)
            kc = min(k, conc_universe or k)
            for conc in itertools.product(masks(kc), repeat=nconc):
                nsym = nd - nconc
                pres_args = [f"p{i}_{j}: bool" for i in range(nsym) for j in range(k)]
                dual_args = [f"d{i}: bool" for i in range(nd)]
                if sym in ("U1",):
                    qargs, qexpr, pre = ["q: int"], "q", ""
                elif sym == "U1U1":
                    qargs, qexpr, pre = ["q0: int", "q1: int"], "(q0, q1)", ""
                elif sym == "Z2":
                    qargs, qexpr, pre = ["q: bool"], "int(q)", ""
                elif sym == "Z4":
                    qargs, qexpr, pre = ["q0: bool", "q1: bool"], "2 * int(q1) + int(q0)", ""
                else:
                    qargs, qexpr, pre = ["q0: bool", "q1: bool"], "(int(q0), int(q1))", ""
                args = ", ".join(pres_args + dual_args + qargs)
                cms = []
                for i in range(nsym):
                    items = ", ".join(f"({uni[j]!r}, p{i}_{j})" for j in range(k))
                    cms.append("{c: 1 for c, p in (" + items + ",) if p}")
                for m in conc:
                    cms.append("{" + ", ".join(f"{uni[j]!r}: {1 + j % 2}" for j in range(kc) if m[j]) + "}")
                name = f"chk_sectors_{sym}_{nd}_{n}"
                n += 1
                out.append(f"def {name}({args}) -> bool:\n    \"\"\"\n    post: _\n    \"\"\"\n"
                           f"    cms = [{', '.join(cms)}]\n"
                           f"    duals = tuple([{', '.join('d%d' % i for i in range(nd))}])\n"
                           f"    return _check({sym!r}, cms, duals, {qexpr})\n\n")
    return "\n".join(out)


if __name__ == "__main__":
    import sys
    print(generate([int(a) for a in sys.argv[1:]] or [2]))
