"""C05 (engine A): axis-group bookkeeping of fusing, symbolic duals and a symbolic choice among all
ordered disjoint groupings; slice bookkeeping for symbolic sizes."""
import itertools

from symmray.abelian_core import accum_for_split, calc_fuse_group_info


def _groupings(ndim, max_groups):
    out = []

    def rec(remaining, groups):
        if groups:
            out.append(tuple(groups))
        if len(groups) >= max_groups:
            return
        for k in range(1, len(remaining) + 1):
            for g in itertools.permutations(remaining, k):
                rec([a for a in remaining if a not in g], groups + [tuple(g)])

    rec(list(range(ndim)), [])
    return out


G3 = _groupings(3, 3)
G4 = _groupings(4, 2)


def _pick(lst, bits):
    i = 0
    for k, b in enumerate(bits):
        if b:
            i += 1 << k
    return lst[i % len(lst)]


def _ok(groups, duals, fn):
    ndim = len(duals)
    (num_groups, singlets, new_ndim, perm, position, before, after, ax2group, group_duals, new_axes) = fn(groups, duals)
    grouped = [a for g in groups for a in g]
    ok = sorted(perm) == list(range(ndim))
    ok = ok and position == min(grouped)
    ok = ok and list(before) == [a for a in range(position) if a not in grouped]
    ok = ok and list(after) == [a for a in range(position, ndim) if a not in grouped]
    ok = ok and list(perm) == list(before) + grouped + list(after)
    ok = ok and num_groups == len(groups) and new_ndim == len(before) + len(groups) + len(after)
    ok = ok and list(singlets) == [g for g, ga in enumerate(groups) if len(ga) == 1]
    for g, ga in enumerate(groups):
        ok = ok and group_duals[g] == duals[ga[0]]
        for a in ga:
            ok = ok and new_axes[a] == len(before) + g and ax2group[a] == g
    for n, a in enumerate(before):
        ok = ok and new_axes[a] == n and ax2group[a] is None
    for n, a in enumerate(after):
        ok = ok and new_axes[a] == len(before) + len(groups) + n and ax2group[a] is None
    return bool(ok)


def chk_group_info_3(d0: bool, d1: bool, d2: bool, b0: bool, b1: bool, b2: bool, b3: bool, b4: bool, b5: bool) -> bool:
    """
    post: _
    """
    return _ok(_pick(G3, (b0, b1, b2, b3, b4, b5)), (d0, d1, d2), calc_fuse_group_info.__wrapped__)


def chk_group_info_3_cached(d0: bool, d1: bool, d2: bool, b0: bool, b1: bool, b2: bool, b3: bool, b4: bool, b5: bool) -> bool:
    """
    post: _
    """
    return _ok(_pick(G3, (b0, b1, b2, b3, b4, b5)), (d0, d1, d2), calc_fuse_group_info)


def chk_group_info_4(d0: bool, d1: bool, d2: bool, d3: bool, b0: bool, b1: bool, b2: bool, b3: bool, b4: bool, b5: bool, b6: bool, b7: bool) -> bool:
    """
    post: _
    """
    return _ok(_pick(G4, (b0, b1, b2, b3, b4, b5, b6, b7)), (d0, d1, d2, d3), calc_fuse_group_info.__wrapped__)


def chk_accum_for_split(a: int, b: int, c: int, d: int, n3: bool, n4: bool) -> bool:
    """
    pre: a >= 0 and b >= 0 and c >= 0 and d >= 0
    post: _
    """
    sizes = [a, b] + ([c] if n3 else []) + ([d] if n4 else [])
    sl = accum_for_split(sizes)
    ok = len(sl) == len(sizes)
    pos = 0
    for s, sz in zip(sl, sizes):
        ok = ok and s.start == pos and s.stop == pos + sz and s.step is None
        pos += sz
    return bool(ok)
