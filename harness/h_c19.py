"""C19 (engine A): edge-wise Hamiltonian builders and the site description, for symbolic graphs on 4
sites: which candidate edges exist and whether each is listed reversed are symbolic booleans.  The local
two-site builder is replaced by a recorder (the builder itself is C18's subject)."""
import symmray.fermionic_local_operators as flo
import symmray.hamiltonians as ham
from symmray.networks import parse_edges_to_site_info

CAND = [(0, 1), (0, 2), (1, 2), (0, 3), (1, 3), (2, 3)]
LABELS = {
    "int": {0: 0, 1: 1, 2: 2, 3: 3},
    "tuple": {0: (0, 0), 1: (0, 1), 2: (1, 0), 3: (1, 1)},
    "str": {0: "a", 1: "b", 2: "c", 3: "d"},
}


def _edges(pres, rev, lab):
    out = []
    for (a, b), e, f in zip(CAND, pres, rev):
        if e:
            out.append((lab[b], lab[a]) if f else (lab[a], lab[b]))
    return out


def _rec_spinful(symmetry, t=1.0, U=8.0, mu=0.0, coordinations=(1, 1), like="numpy"):
    return ("rec", t, U, mu, coordinations)


def _rec_spinless(symmetry, t=1.0, V=8.0, mu=0.0, coordinations=(1, 1), like="numpy"):
    return ("rec", t, V, mu, coordinations)


def _check_builder(edges, spinful, kind):
    if not edges:
        return True
    deg = {}
    for a, b in edges:
        deg[a] = deg.get(a, 0) + 1
        deg[b] = deg.get(b, 0) + 1
    sites = sorted(deg, key=repr)
    tval = {frozenset(e): 10 + k for k, e in enumerate(edges)}
    vval = {frozenset(e): 100 + k for k, e in enumerate(edges)}
    uval = {s: 1000 + k for k, s in enumerate(sites)}
    mval = {s: 2000 + k for k, s in enumerate(sites)}
    if kind == 0:
        # scalars
        t, V, U, mu = 3, 5, 7, 11
        tspec, vspec, uspec, mspec = (lambda a, b: 3), (lambda a, b: 5), (lambda s: 7), (lambda s: 11)
    elif kind == 1:
        # dicts, keyed in the orientation *opposite* to the listing for every other edge
        t = {((b, a) if k % 2 else (a, b)): tval[frozenset((a, b))] for k, (a, b) in enumerate(edges)}
        V = {((a, b) if k % 2 else (b, a)): vval[frozenset((a, b))] for k, (a, b) in enumerate(edges)}
        U, mu = dict(uval), dict(mval)
        tspec, vspec, uspec, mspec = (lambda a, b: tval[frozenset((a, b))]), (lambda a, b: vval[frozenset((a, b))]), (lambda s: uval[s]), (lambda s: mval[s])
    else:
        t = lambda a, b: tval[frozenset((a, b))]
        V = lambda a, b: vval[frozenset((a, b))]
        U = lambda s: uval[s]
        mu = lambda s: mval[s]
        tspec, vspec, uspec, mspec = t, V, U, mu
    old1, old2 = flo.fermi_hubbard_local_array, flo.fermi_hubbard_spinless_local_array
    flo.fermi_hubbard_local_array, flo.fermi_hubbard_spinless_local_array = _rec_spinful, _rec_spinless
    try:
        if spinful:
            res = ham.ham_fermi_hubbard_from_edges("Z2", edges, t=t, U=U, mu=mu)
        else:
            res = ham.ham_fermi_hubbard_spinless_from_edges("Z2", edges, t=t, V=V, mu=mu)
    finally:
        flo.fermi_hubbard_local_array, flo.fermi_hubbard_spinless_local_array = old1, old2
    ok = list(res.keys()) == list(edges) and len(res) == len(edges)
    onsite = {s: 0 for s in sites}
    from fractions import Fraction
    for (a, b) in edges:
        rec = res[(a, b)]
        _, tt, uu, mm, co = rec
        ok = ok and tt == tspec(a, b)
        ok = ok and tuple(co) == (deg[a], deg[b])
        if spinful:
            ok = ok and tuple(uu) == (uspec(a), uspec(b))
        else:
            ok = ok and uu == vspec(a, b)
        ok = ok and tuple(mm) == (mspec(a), mspec(b))
        # what the two-site builder is documented to do with it: divide each site's term by its coordination
        onsite[a] += Fraction(mm[0], co[0])
        onsite[b] += Fraction(mm[1], co[1])
    ok = ok and all(onsite[s] == mspec(s) for s in sites)
    return bool(ok)


def chk_hubbard_edges_spinful_11(e2: bool, e3: bool, e4: bool, e5: bool, f0: bool, f1: bool, f2: bool, f3: bool, f4: bool, f5: bool) -> bool:
    """
    post: _
    """
    edges = _edges((True, True, e2, e3, e4, e5), (f0, f1, f2, f3, f4, f5), LABELS["int"])
    return _check_builder(edges, True, 1)


def chk_hubbard_edges_spinful_10(e2: bool, e3: bool, e4: bool, e5: bool, f0: bool, f1: bool, f2: bool, f3: bool, f4: bool, f5: bool) -> bool:
    """
    post: _
    """
    edges = _edges((True, False, e2, e3, e4, e5), (f0, f1, f2, f3, f4, f5), LABELS["int"])
    return _check_builder(edges, True, 1)


def chk_hubbard_edges_spinful_01(e2: bool, e3: bool, e4: bool, e5: bool, f0: bool, f1: bool, f2: bool, f3: bool, f4: bool, f5: bool) -> bool:
    """
    post: _
    """
    edges = _edges((False, True, e2, e3, e4, e5), (f0, f1, f2, f3, f4, f5), LABELS["int"])
    return _check_builder(edges, True, 1)


def chk_hubbard_edges_spinful_00(e2: bool, e3: bool, e4: bool, e5: bool, f0: bool, f1: bool, f2: bool, f3: bool, f4: bool, f5: bool) -> bool:
    """
    post: _
    """
    edges = _edges((False, False, e2, e3, e4, e5), (f0, f1, f2, f3, f4, f5), LABELS["int"])
    return _check_builder(edges, True, 1)


def chk_hubbard_edges_spinless_11(e2: bool, e3: bool, e4: bool, e5: bool, f0: bool, f1: bool, f2: bool, f3: bool, f4: bool, f5: bool) -> bool:
    """
    post: _
    """
    edges = _edges((True, True, e2, e3, e4, e5), (f0, f1, f2, f3, f4, f5), LABELS["int"])
    return _check_builder(edges, False, 1)


def chk_hubbard_edges_spinless_10(e2: bool, e3: bool, e4: bool, e5: bool, f0: bool, f1: bool, f2: bool, f3: bool, f4: bool, f5: bool) -> bool:
    """
    post: _
    """
    edges = _edges((True, False, e2, e3, e4, e5), (f0, f1, f2, f3, f4, f5), LABELS["int"])
    return _check_builder(edges, False, 1)


def chk_hubbard_edges_spinless_01(e2: bool, e3: bool, e4: bool, e5: bool, f0: bool, f1: bool, f2: bool, f3: bool, f4: bool, f5: bool) -> bool:
    """
    post: _
    """
    edges = _edges((False, True, e2, e3, e4, e5), (f0, f1, f2, f3, f4, f5), LABELS["int"])
    return _check_builder(edges, False, 1)


def chk_hubbard_edges_spinless_00(e2: bool, e3: bool, e4: bool, e5: bool, f0: bool, f1: bool, f2: bool, f3: bool, f4: bool, f5: bool) -> bool:
    """
    post: _
    """
    edges = _edges((False, False, e2, e3, e4, e5), (f0, f1, f2, f3, f4, f5), LABELS["int"])
    return _check_builder(edges, False, 1)


def chk_hubbard_edges_kinds(e0: bool, e1: bool, e2: bool, e3: bool, f0: bool, f1: bool, f2: bool, f3: bool, spinful: bool, k0: bool, k1: bool, strlab: bool) -> bool:
    """
    post: _
    """
    lab = LABELS["str"] if strlab else LABELS["tuple"]
    edges = _edges((e0, e1, e2, e3, False, False), (f0, f1, f2, f3, False, False), lab)
    kind = (int(k0) + 2 * int(k1)) % 3
    return _check_builder(edges, spinful, kind)


def _check_siteinfo(edges, phys=True):
    if not edges:
        return True
    if not phys:
        # networks without physical legs
        info = parse_edges_to_site_info(edges, bond_dim=3, phys_dim=None)
        deg = {}
        for a, b in edges:
            deg[a] = deg.get(a, 0) + 1
            deg[b] = deg.get(b, 0) + 1
        ok = set(info) == set(deg)
        for s_, d in deg.items():
            i = info[s_]
            ok = ok and i["coordination"] == d and len(i["inds"]) == d and len(i["duals"]) == d and list(i["shape"]) == [3] * d
        return bool(ok)
    info = parse_edges_to_site_info(edges, bond_dim=3, phys_dim=2)
    deg = {}
    for a, b in edges:
        deg[a] = deg.get(a, 0) + 1
        deg[b] = deg.get(b, 0) + 1
    ok = set(info) == set(deg)
    for s, d in deg.items():
        i = info[s]
        ok = ok and i["coordination"] == d and len(i["inds"]) == d + 1 and len(i["duals"]) == d + 1 and len(i["shape"]) == d + 1
        ok = ok and list(i["shape"]) == [3] * d + [2] and i["duals"][-1] == 0
    seen = {}
    for s, i in info.items():
        for ind, du in zip(i["inds"][:-1], i["duals"][:-1]):
            seen.setdefault(ind, []).append((s, du))
    ok = ok and len(seen) == len(edges)
    for ind, ends in seen.items():
        ok = ok and len(ends) == 2 and {ends[0][1], ends[1][1]} == {0, 1}
        # the first end after sorting is the non-dual one
        (s0, d0), (s1, d1) = ends
        lo, hi = (s0, s1) if s0 < s1 else (s1, s0)
        ok = ok and dict(ends)[lo] == 0 and dict(ends)[hi] == 1
        ok = ok and ((lo, hi) in edges or (hi, lo) in edges)
    # physical index names are distinct
    phys = [i["inds"][-1] for i in info.values()]
    ok = ok and len(set(phys)) == len(phys)
    return bool(ok)


def chk_site_info(e0: bool, e1: bool, e2: bool, e3: bool, e4: bool, e5: bool, f0: bool, f1: bool, f2: bool, f3: bool, f4: bool, f5: bool) -> bool:
    """
    post: _
    """
    return _check_siteinfo(_edges((e0, e1, e2, e3, e4, e5), (f0, f1, f2, f3, f4, f5), LABELS["int"]))


def chk_site_info_labels(e0: bool, e1: bool, e2: bool, e3: bool, f0: bool, f1: bool, f2: bool, f3: bool, strlab: bool, phys: bool) -> bool:
    """
    post: _
    """
    lab = LABELS["str"] if strlab else LABELS["tuple"]
    return _check_siteinfo(_edges((e0, e1, e2, e3, False, False), (f0, f1, f2, f3, False, False), lab), phys)
