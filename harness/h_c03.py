"""C03 (engine A): the Koszul sign kernel equals the inversion-count sign for symbolic parities and
a symbolic choice of permutation; perm=None is the full reversal."""
import itertools

from symmray.symmetries import calc_phase_permutation

P2 = list(itertools.permutations(range(2)))
P3 = list(itertools.permutations(range(3)))
P4 = list(itertools.permutations(range(4)))
P5 = list(itertools.permutations(range(5)))


def _pick(lst, bits):
    i = 0
    for k, b in enumerate(bits):
        if b:
            i += 1 << k
    return lst[i % len(lst)]


def _ref(par, perm):
    inv = 0
    n = len(perm)
    for i in range(n):
        for j in range(i + 1, n):
            if perm[i] > perm[j] and par[perm[i]] and par[perm[j]]:
                inv += 1
    return -1 if inv % 2 else 1


def chk_koszul_3(p0: bool, p1: bool, p2: bool, b0: bool, b1: bool, b2: bool) -> bool:
    """
    post: _
    """
    par = (int(p0), int(p1), int(p2))
    perm = _pick(P3, (b0, b1, b2))
    return calc_phase_permutation.__wrapped__(par, perm) == _ref(par, perm) and calc_phase_permutation(par, perm) == _ref(par, perm)


def chk_koszul_4(p0: bool, p1: bool, p2: bool, p3: bool, b0: bool, b1: bool, b2: bool, b3: bool, b4: bool) -> bool:
    """
    post: _
    """
    par = (int(p0), int(p1), int(p2), int(p3))
    perm = _pick(P4, (b0, b1, b2, b3, b4))
    return calc_phase_permutation.__wrapped__(par, perm) == _ref(par, perm)


def chk_koszul_4_cached(p0: bool, p1: bool, p2: bool, p3: bool, b0: bool, b1: bool, b2: bool, b3: bool, b4: bool) -> bool:
    """
    post: _
    """
    par = (int(p0), int(p1), int(p2), int(p3))
    perm = _pick(P4, (b0, b1, b2, b3, b4))
    return calc_phase_permutation(par, perm) == _ref(par, perm)


def chk_reversal(p0: bool, p1: bool, p2: bool, p3: bool, p4: bool, p5: bool, n3: bool, n4: bool, n5: bool, n6: bool) -> bool:
    """
    post: _
    """
    par = [int(p0), int(p1)] + ([int(p2)] if n3 else []) + ([int(p3)] if n4 else []) + ([int(p4)] if n5 else []) + ([int(p5)] if n6 else [])
    par = tuple(par)
    rev = tuple(range(len(par) - 1, -1, -1))
    return calc_phase_permutation.__wrapped__(par, None) == _ref(par, rev) == calc_phase_permutation.__wrapped__(par, rev)


def chk_koszul_5(p0: bool, p1: bool, p2: bool, p3: bool, p4: bool, b0: bool, b1: bool, b2: bool, b3: bool, b4: bool, b5: bool, b6: bool) -> bool:
    """
    post: _
    """
    par = (int(p0), int(p1), int(p2), int(p3), int(p4))
    perm = _pick(P5, (b0, b1, b2, b3, b4, b5, b6))
    return calc_phase_permutation.__wrapped__(par, perm) == _ref(par, perm)
