"""C15 (engine A): the default-contraction-mode context manager restores the default on normal and
exceptional exit for every nesting; set_default_tensordot_mode(None) is a no-op; (hash keys go through pickle, a C
boundary CrossHair cannot execute symbolically: the memoised-key clauses are covered by the engine-B
history sweep instead)."""
import symmray.abelian_core as ac
from symmray.abelian_core import BlockIndex, default_tensordot_mode, get_default_tensordot_mode, set_default_tensordot_mode

MODES = ("auto", "fused", "blockwise")


def _mode(b0: bool, b1: bool):
    return MODES[(int(b0) + 2 * int(b1)) % 3]


class _Boom(Exception):
    pass


def chk_context_manager(i0: bool, i1: bool, a0: bool, a1: bool, depth2: bool, depth3: bool, raise1: bool, raise2: bool, raise3: bool) -> bool:
    """
    post: _
    """
    # inner modes are derived from the outer one (rotations), all initial/outer modes are symbolic
    b0, b1 = (not a0), a1
    c0, c1 = a0, (not a1)
    init = _mode(i0, i1)
    set_default_tensordot_mode(init)
    ok = get_default_tensordot_mode() == init
    try:
        with default_tensordot_mode(_mode(a0, a1)):
            ok = ok and get_default_tensordot_mode() == _mode(a0, a1)
            if depth2:
                try:
                    with default_tensordot_mode(_mode(b0, b1)):
                        ok = ok and get_default_tensordot_mode() == _mode(b0, b1)
                        if depth3:
                            try:
                                with default_tensordot_mode(_mode(c0, c1)):
                                    ok = ok and get_default_tensordot_mode() == _mode(c0, c1)
                                    if raise3:
                                        raise _Boom()
                            except _Boom:
                                pass
                            ok = ok and get_default_tensordot_mode() == _mode(b0, b1)
                        if raise2:
                            raise _Boom()
                except _Boom:
                    pass
                ok = ok and get_default_tensordot_mode() == _mode(a0, a1)
            if raise1:
                raise _Boom()
    except _Boom:
        pass
    ok = ok and get_default_tensordot_mode() == init
    set_default_tensordot_mode(None)
    ok = ok and get_default_tensordot_mode() == init
    set_default_tensordot_mode("auto")
    return bool(ok)


