"""C01 (engine A) lemmas with unbounded charges: the sector validity rule equals the independent
signed sum, and contraction closes (valid sectors that agree on contracted legs of opposite
direction give a free sector valid for the combined charge)."""
from symmray.abelian_core import AbelianArray, BlockIndex, without
from symmray.symmetries import get_symmetry


def _arr(symname, charges, duals, q):
    # the validity rule reads only directions and the total charge: index tables stay concrete
    # (a symbolic charge used as a dict key would be realised by CrossHair)
    z = (0, 0) if symname == "U1U1" else 0
    return AbelianArray([BlockIndex({z: 1}, dual=d) for d in duals], charge=q, symmetry=symname)


def chk_valid_sector_u1(c0: int, c1: int, c2: int, c3: int, d0: bool, d1: bool, d2: bool, d3: bool, q: int, n3: bool, n4: bool) -> bool:
    """
    post: _
    """
    cs = [c0, c1] + ([c2] if n3 else []) + ([c3] if n4 else [])
    ds = [d0, d1, d2, d3][: len(cs)]
    x = _arr("U1", cs, ds, q)
    want = sum((-c if d else c) for c, d in zip(cs, ds)) == q
    return x.is_valid_sector(tuple(cs)) == want


def chk_valid_sector_u1u1(a0: int, a1: int, b0: int, b1: int, c0: int, c1: int, d0: bool, d1: bool, d2: bool, q0: int, q1: int) -> bool:
    """
    post: _
    """
    cs = [(a0, a1), (b0, b1), (c0, c1)]
    ds = [d0, d1, d2]
    x = _arr("U1U1", cs, ds, (q0, q1))
    want = (sum((-c[0] if d else c[0]) for c, d in zip(cs, ds)) == q0) and (sum((-c[1] if d else c[1]) for c, d in zip(cs, ds)) == q1)
    return x.is_valid_sector(tuple(cs)) == want


def chk_valid_sector_z4(a0: bool, a1: bool, b0: bool, b1: bool, c0: bool, c1: bool, d0: bool, d1: bool, d2: bool, q0: bool, q1: bool) -> bool:
    """
    post: _
    """
    cs = [2 * int(a1) + int(a0), 2 * int(b1) + int(b0), 2 * int(c1) + int(c0)]
    ds = [d0, d1, d2]
    q = 2 * int(q1) + int(q0)
    x = _arr("Z4", cs, ds, q)
    want = sum((-c if d else c) for c, d in zip(cs, ds)) % 4 == q
    return x.is_valid_sector(tuple(cs)) == want


def chk_contraction_closes_u1(a0: int, a1: int, a2: int, b1: int, b2: int, da0: bool, da1: bool, da2: bool, db1: bool, db2: bool, qa: int, qb: int, two: bool) -> bool:
    """
    post: _
    """
    s = get_symmetry("U1")
    # a has legs (a0, a1, a2); b has legs (k.., b1, b2) where the first one or two are the conjugates of a's last
    k = 2 if two else 1
    sa = (a0, a1, a2)
    dua = (da0, da1, da2)
    con_a = (1, 2) if two else (2,)
    sb = tuple(sa[i] for i in con_a) + (b1, b2)
    dub = tuple(not dua[i] for i in con_a) + (db1, db2)
    x = _arr("U1", sa, dua, qa)
    y = _arr("U1", sb, dub, qb)
    if not (x.is_valid_sector(sa) and y.is_valid_sector(sb)):
        return True
    free = without(sa, con_a) + without(sb, tuple(range(k)))
    fd = without(dua, con_a) + without(dub, tuple(range(k)))
    z = _arr("U1", free, fd, s.combine(qa, qb))
    return z.is_valid_sector(free)


def chk_contraction_closes_z4(a0: bool, a1: bool, c0: bool, c1: bool, e0: bool, e1: bool, da: bool, dc: bool, de: bool) -> bool:
    """
    post: _
    """
    s = get_symmetry("Z4")
    a, c, e = 2 * int(a1) + int(a0), 2 * int(c1) + int(c0), 2 * int(e1) + int(e0)
    # a: (a, c) ; b: (c*, e) contracted over c; total charges chosen so that both sectors are valid
    qa = s.combine(s.sign(a, da), s.sign(c, dc))
    qb = s.combine(s.sign(c, not dc), s.sign(e, de))
    x = _arr("Z4", (a, c), (da, dc), qa)
    y = _arr("Z4", (c, e), (not dc, de), qb)
    z = _arr("Z4", (a, e), (da, de), s.combine(qa, qb))
    return x.is_valid_sector((a, c)) and y.is_valid_sector((c, e)) and z.is_valid_sector((a, e))
