"""C04 (engine A): label order is a strict total order for unbounded integer labels; conjugating a
sorted label tuple keeps it sorted; label resolution returns a strictly sorted tuple with no
adjacent conjugate pair, preserving the multiset of un-annihilated labels, and flips the global
sign an amount that matches an independent count."""
from symmray.fermionic_core import oddpos_dag, resolve_combined_oddpos
from symmray.fermionic_local_operators import FermionicOperator as F


def chk_order_total(a: int, b: int, c: int, da: bool, db: bool, dc: bool) -> bool:
    """
    post: _
    """
    x, y, z = F(a, da), F(b, db), F(c, dc)
    ok = not (x < x)
    # trichotomy
    ok = ok and ((x < y) + (y < x) + (x == y)) == 1
    # transitivity
    if (x < y) and (y < z):
        ok = ok and (x < z)
    # equality is equality of (label, dual)
    ok = ok and ((x == y) == (a == b and da == db))
    return bool(ok)


def _sorted(t):
    return all(p < q for p, q in zip(t, t[1:]))


def chk_dag_sorted(a: int, b: int, c: int, da: bool, db: bool, dc: bool, n3: bool) -> bool:
    """
    post: _
    """
    t = [F(a, da), F(b, db)] + ([F(c, dc)] if n3 else [])
    if not _sorted(t):
        return True
    u = oddpos_dag(tuple(t))
    v = oddpos_dag(u)
    return _sorted(u) and len(u) == len(t) and all(p == q for p, q in zip(v, t))


class _Arr:
    def __init__(self, oddpos, parity):
        self.oddpos = tuple(oddpos)
        self.parity = parity


class _New:
    def __init__(self):
        self.flips = 0
        self._oddpos = None

    def phase_global(self, inplace=False):
        self.flips += 1
        return self


def _normal_form(ops):
    """(sign, sorted labels) after annihilating every conjugate pair: the pair is brought adjacent
    (each hop over another label costs a sign), ket-then-bra costs another, then the rest is sorted
    with the parity of the number of inversions"""
    cur = list(ops)
    sign = 1
    while True:
        found = None
        for i in range(len(cur)):
            for j in range(i + 1, len(cur)):
                if cur[i].label == cur[j].label and cur[i].dual != cur[j].dual:
                    found = (i, j)
                    break
            if found:
                break
        if not found:
            break
        i, j = found
        if (j - i - 1) % 2:
            sign = -sign
        if cur[j].dual:  # ket ... bra
            sign = -sign
        del cur[j]
        del cur[i]
    inv = 0
    for i in range(len(cur)):
        for j in range(i + 1, len(cur)):
            if cur[j] < cur[i]:
                inv += 1
    if inv % 2:
        sign = -sign
    out = []
    rest = list(cur)
    while rest:
        m = rest[0]
        for r in rest[1:]:
            if r < m:
                m = r
        rest.remove(m)
        out.append(m)
    return sign, out


def _resolve_ok(ls, rs, lp):
    both = ls + rs
    left, right, new = _Arr(ls, 1 if lp else 0), _Arr(rs, 0), _New()
    dup = any(p.label == q.label and p.dual == q.dual for i, p in enumerate(both) for q in both[i + 1:])
    try:
        resolve_combined_oddpos(left, right, new)
    except ValueError:
        # allowed only for non-conjugate duplicates
        return dup
    if dup:
        return True  # outside the precondition (labels must be unique conjugate pairs)
    out = list(new._oddpos)
    ok = _sorted(out)
    ok = ok and not any(p.label == q.label and p.dual != q.dual for p, q in zip(out, out[1:]))
    s_in, nf_in = _normal_form(both)
    if lp and len(rs) % 2 == 1:
        s_in = -s_in  # right labels moved over an odd left operand
    s_out, nf_out = _normal_form(out)
    if new.flips % 2:
        s_out = -s_out
    ok = ok and len(nf_in) == len(nf_out) and all(p == q for p, q in zip(nf_in, nf_out)) and s_in == s_out
    return bool(ok)


def chk_resolve_1_1(a: int, b: int, da: bool, db: bool, lp: bool) -> bool:
    """
    post: _
    """
    return _resolve_ok([F(a, da)], [F(b, db)], lp)


def chk_resolve_2_1(a: int, b: int, c: int, da: bool, db: bool, dc: bool, lp: bool) -> bool:
    """
    post: _
    """
    ls = [F(a, da), F(b, db)]
    if not _sorted(ls):
        return True
    return _resolve_ok(ls, [F(c, dc)], lp)


def chk_resolve_1_2(a: int, b: int, c: int, da: bool, db: bool, dc: bool, lp: bool) -> bool:
    """
    post: _
    """
    rs = [F(b, db), F(c, dc)]
    if not _sorted(rs):
        return True
    return _resolve_ok([F(a, da)], rs, lp)


def chk_resolve_2_2(a: int, b: int, c: int, d: int, da: bool, db: bool, dc: bool, dd: bool, lp: bool) -> bool:
    """
    post: _
    """
    ls, rs = [F(a, da), F(b, db)], [F(c, dc), F(d, dd)]
    if not (_sorted(ls) and _sorted(rs)):
        return True
    return _resolve_ok(ls, rs, lp)
