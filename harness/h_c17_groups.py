"""C17 (engine A): group laws of every built-in symmetry, via get_symmetry(name).
U1 / U1U1 charges are unbounded symbolic integers; finite groups are symbolic over all valid
charges through boolean inputs (a symbolic int with a range precondition is realised prematurely
by CrossHair)."""
from typing import Tuple

from symmray.symmetries import get_symmetry


def _laws(s, a, b, c):
    e = s.combine()
    ok = s.valid(a, b, c) and s.valid(e)
    ok = ok and s.combine(s.combine(a, b), c) == s.combine(a, s.combine(b, c)) == s.combine(a, b, c)
    ok = ok and s.combine(a, b) == s.combine(b, a)
    ok = ok and s.combine(a, e) == a and s.combine(e, a) == a and s.combine(a) == a
    ok = ok and s.valid(s.combine(a, b))
    na = s.sign(a)
    ok = ok and s.valid(na) and s.combine(a, na) == e and s.combine(na, a) == e
    ok = ok and s.sign(a, True) == na and s.sign(a, False) == a
    ok = ok and s.sign(na) == a
    pa, pb = s.parity(a), s.parity(b)
    ok = ok and pa in (0, 1) and pb in (0, 1) and s.parity(e) == 0
    ok = ok and s.parity(s.combine(a, b)) == (pa + pb) % 2
    ok = ok and s.parity(na) == pa
    return bool(ok)


def chk_u1(a: int, b: int, c: int) -> bool:
    """
    post: _
    """
    return _laws(get_symmetry("U1"), a, b, c)


def chk_u1u1(a0: int, a1: int, b0: int, b1: int, c0: int, c1: int) -> bool:
    """
    post: _
    """
    return _laws(get_symmetry("U1U1"), (a0, a1), (b0, b1), (c0, c1))


def chk_z2(a: bool, b: bool, c: bool) -> bool:
    """
    post: _
    """
    return _laws(get_symmetry("Z2"), int(a), int(b), int(c))


def chk_z4(a0: bool, a1: bool, b0: bool, b1: bool, c0: bool, c1: bool) -> bool:
    """
    post: _
    """
    return _laws(get_symmetry("Z4"), 2 * int(a1) + int(a0), 2 * int(b1) + int(b0), 2 * int(c1) + int(c0))


def chk_z2z2(a0: bool, a1: bool, b0: bool, b1: bool, c0: bool, c1: bool) -> bool:
    """
    post: _
    """
    return _laws(get_symmetry("Z2Z2"), (int(a0), int(a1)), (int(b0), int(b1)), (int(c0), int(c1)))


def chk_u1_nary(a: int, b: int, c: int, d: int) -> bool:
    """
    post: _
    """
    s = get_symmetry("U1")
    return s.combine(a, b, c, d) == s.combine(s.combine(a, b), s.combine(c, d))


def chk_u1u1_nary(a0: int, a1: int, b0: int, b1: int, c0: int, c1: int, d0: int, d1: int) -> bool:
    """
    post: _
    """
    s = get_symmetry("U1U1")
    a, b, c, d = (a0, a1), (b0, b1), (c0, c1), (d0, d1)
    return s.combine(a, b, c, d) == s.combine(s.combine(a, b), s.combine(c, d))


def chk_instances(k: bool, l: bool) -> bool:
    """
    post: _
    """
    # the registry returns the same group for a name and for an instance of it
    names = ("Z2", "Z4", "U1", "Z2Z2", "U1U1")
    ok = True
    for n in names:
        s = get_symmetry(n)
        ok = ok and get_symmetry(s) == s and type(s).__name__ == n and s == n
    return ok
