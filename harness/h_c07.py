"""C07 (engine A): the axis-matching routine of reshape with symbolic sizes, a symbolic merge pattern
and a symbolic drop pattern; forward trip and reverse trip through an independent shape simulator."""
from symmray.abelian_core import calc_reshape_args

F = calc_reshape_args.__wrapped__


def _simulate(shape, subsizes, res):
    """apply (unfuse, fuse groupings, expand) to a shape -> (new shape, new subsizes), or None if ill-formed"""
    axs_unfuse, axs_fuse, axs_expand = res
    sh = list(shape)
    ss = list(subsizes)
    for ax in axs_unfuse:
        if not (0 <= ax < len(sh)) or ss[ax] is None:
            return None
        sub = list(ss[ax])
        sh = sh[:ax] + sub + sh[ax + 1:]
        ss = ss[:ax] + [None] * len(sub) + ss[ax + 1:]
    for grouping in axs_fuse:
        flat = [a for g in grouping for a in g]
        if flat != list(range(flat[0], flat[0] + len(flat))) or flat[-1] >= len(sh):
            return None  # groups must be contiguous, adjacent and in range
        new_sh, new_ss = [], []
        for g in grouping:
            p = 1
            for a in g:
                p *= sh[a]
            new_sh.append(p)
            new_ss.append(tuple(sh[a] for a in g) if len(g) > 1 else ss[g[0]])
        sh = sh[:flat[0]] + new_sh + sh[flat[-1] + 1:]
        ss = ss[:flat[0]] + new_ss + ss[flat[-1] + 1:]
    for ax in axs_expand:
        if not (0 <= ax <= len(sh)):
            return None
        sh = sh[:ax] + [1] + sh[ax:]
        ss = ss[:ax] + [None] + ss[ax:]
    return tuple(sh), tuple(ss)


def _target(shape, merges, drops):
    groups, cur = [], [0]
    for i, m in enumerate(merges):
        if m:
            cur.append(i + 1)
        else:
            groups.append(cur)
            cur = [i + 1]
    groups.append(cur)
    merged = []
    for g in groups:
        p = 1
        for a in g:
            p *= shape[a]
        merged.append(p)
    out = []
    for k, m in enumerate(merged):
        if m == 1 and drops[k]:
            continue
        out.append(m)
    return tuple(out)


def _roundtrip(shape, merges, drops):
    new = _target(shape, merges, drops)
    if len(new) == 0:
        return True  # all-singleton -> scalar: known to raise, recorded separately
    none = (None,) * len(shape)
    r1 = F(tuple(shape), new, none)
    s1 = _simulate(shape, none, r1)
    if s1 is None or s1[0] != new:
        return False
    r2 = F(new, tuple(shape), s1[1])
    s2 = _simulate(new, s1[1], r2)
    return s2 is not None and s2[0] == tuple(shape)


def chk_reshape_2(a: int, b: int, m0: bool, d0: bool, d1: bool) -> bool:
    """
    pre: 1 <= a <= 6 and 1 <= b <= 6
    post: _
    """
    return _roundtrip((a, b), (m0,), (d0, d1))


def chk_reshape_3(a: int, b: int, c: int, m0: bool, m1: bool, d0: bool, d1: bool, d2: bool) -> bool:
    """
    pre: 1 <= a <= 6 and 1 <= b <= 6 and 1 <= c <= 6
    post: _
    """
    return _roundtrip((a, b, c), (m0, m1), (d0, d1, d2))


def chk_reshape_4(a: int, b: int, c: int, d: int, m0: bool, m1: bool, m2: bool, d0: bool, d1: bool, d2: bool, d3: bool) -> bool:
    """
    pre: 1 <= a <= 4 and 1 <= b <= 4 and 1 <= c <= 4 and 1 <= d <= 4
    post: _
    """
    return _roundtrip((a, b, c, d), (m0, m1, m2), (d0, d1, d2, d3))


def chk_reshape_5(a: int, b: int, c: int, d: int, e: int, m0: bool, m1: bool, m2: bool, m3: bool, dd: bool) -> bool:
    """
    pre: 1 <= a <= 3 and 1 <= b <= 3 and 1 <= c <= 3 and 1 <= d <= 3 and 1 <= e <= 3
    post: _
    """
    return _roundtrip((a, b, c, d, e), (m0, m1, m2, m3), (dd, dd, dd, dd, dd))
