"""Contract stubs for LAPACK (FFI cannot run on terms).

For a machine-typed argument the original numpy routine is called.  For an ``object`` argument the
stub returns *fresh symbolic factors* and adds their documented contract to the assumptions of the
running path:

  qr (reduced):  Q m x k, R k x n, k=min(m,n);  Q^H Q = I;  R upper triangular (literal zeros below the
                 diagonal);  Q R = x.  Nothing is assumed about the sign of diag R.
  svd (full_matrices=False):  U^H U = I;  V V^H = I;  s_1 >= ... >= s_k >= 0;  U diag(s) V = x.
  eigh:          W^H W = I;  w_1 <= ... <= w_n real;  x W = W diag(w).  Hermiticity of x is an
                 *obligation* on the caller (recorded, decided by the solver), not an assumption.
  solve(A, b):   fresh y with A y = b (A assumed invertible: the harness states det != 0 for <=2x2).
"""

import itertools

import numpy as np
import z3
import autoray as ar

from . import zt
from .zt import Z

_cnt = itertools.count()
_installed = [False]
_orig = {}


def _is_obj(x):
    return isinstance(x, np.ndarray) and x.dtype == object


def _cx(x):
    return any(isinstance(e, Z) and e.im is not None for e in x.reshape(-1))


def _fresh(shape, prefix, cx):
    a = np.empty(shape, dtype=object)
    n = next(_cnt)
    for idx in np.ndindex(*shape):
        nm = f"{prefix}!{n}[" + ",".join(map(str, idx)) + "]"
        a[idx] = zt.var(nm, cx)
    return a


def _eq(a, b):
    return zt.eq_formula(a, b)


def _H(a):
    return np.conj(a).T


def _assume_mat_eq(A, B, text):
    c = zt.ctl()
    fs = []
    for idx in np.ndindex(*A.shape):
        fs.append(_eq(A[idx], B[idx]))
    if fs:
        c.assume(z3.And(*fs) if len(fs) > 1 else fs[0], text)


def _eye(k):
    I = np.empty((k, k), dtype=object)
    for i in range(k):
        for j in range(k):
            I[i, j] = 1 if i == j else 0
    return I


def sym_qr(x):
    m, n = x.shape
    k = min(m, n)
    cx = _cx(x)
    Q = _fresh((m, k), "Q", cx)
    R = _fresh((k, n), "R", cx)
    for i in range(k):
        for j in range(n):
            if j < i:
                R[i, j] = 0
    _assume_mat_eq(_H(Q).dot(Q), _eye(k), "qr contract: Q^H Q = I")
    _assume_mat_eq(Q.dot(R), x, "qr contract: Q R = x")
    return Q, R


def _key(x):
    return tuple((zt.parts(e)[0].get_id(), zt.parts(e)[1].get_id()) for e in x.reshape(-1)) + tuple(x.shape)


def sym_svd(x):
    m, n = x.shape
    k = min(m, n)
    cx = _cx(x)
    c = zt.ctl()
    # the same matrix decomposed twice on one path gets the same factors (LAPACK is a function of its input)
    hit = c.memo.get(("svd", _key(x)))
    if hit is not None:
        return hit[0]
    U = _fresh((m, k), "U", cx)
    V = _fresh((k, n), "V", cx)
    s = _fresh((k,), "s", False)
    _assume_mat_eq(_H(U).dot(U), _eye(k), "svd contract: U^H U = I")
    _assume_mat_eq(V.dot(_H(V)), _eye(k), "svd contract: V V^H = I")
    order = [s[i].re >= s[i + 1].re for i in range(k - 1)] + ([s[k - 1].re >= 0] if k else [])
    if order:
        c.assume(z3.And(*order), "svd contract: s non-increasing, non-negative", light=True)
    US = U * s.reshape((1, -1))
    _assume_mat_eq(US.dot(V), x, "svd contract: U diag(s) V = x")
    c.memo[("svd", _key(x))] = ((U, s, V), x)
    c.memo.setdefault("svd_calls", []).append((x, U, s, V))
    return U, s, V


def sym_eigh(x):
    n = x.shape[0]
    cx = _cx(x)
    W = _fresh((n, n), "W", cx)
    w = _fresh((n,), "w", False)
    c = zt.ctl()
    # Hermiticity of the argument is the caller's obligation
    herm = [_eq(x[i, j], np.conj(x[j, i]) if hasattr(x[j, i], "conjugate") else x[j, i]) for i in range(n) for j in range(i, n)]
    c.oblige("eigh-argument-hermitian", z3.And(*herm) if len(herm) > 1 else herm[0])
    _assume_mat_eq(_H(W).dot(W), _eye(n), "eigh contract: W^H W = I")
    if n > 1:
        c.assume(z3.And(*[w[i].re <= w[i + 1].re for i in range(n - 1)]), "eigh contract: eigenvalues ascending")
    _assume_mat_eq(x.dot(W), W * w.reshape((1, -1)), "eigh contract: x W = W diag(w)")
    # equivalent statements of the same contract for a square unitary W, given so that the solver does not have
    # to re-derive them by non-linear reasoning: W W^H = I and x = W diag(w) W^H
    _assume_mat_eq(W.dot(_H(W)), _eye(n), "eigh contract: W W^H = I (W square)")
    _assume_mat_eq((W * w.reshape((1, -1))).dot(_H(W)), x, "eigh contract: W diag(w) W^H = x")
    return w, W


def sym_solve(A, b):
    cx = _cx(A) or _cx(b)
    c = zt.ctl()
    # the same system solved twice on one path has the same solution (LAPACK is a function of its input)
    k = ("solve", _key(A), _key(b))
    hit = c.memo.get(k)
    if hit is not None:
        return hit[0]
    y = _fresh(b.shape, "y", cx)
    _assume_mat_eq(A.dot(y), b, "solve contract: A y = b")
    c.memo[k] = (y, A, b)
    return y


def install():
    if _installed[0]:
        return
    _installed[0] = True
    import numpy.linalg as nla

    _orig["svd"] = nla.svd
    _orig["qr"] = nla.qr
    _orig["eigh"] = nla.eigh
    _orig["solve"] = nla.solve

    def svd(x, full_matrices=True, **kw):
        if _is_obj(x):
            if full_matrices:
                raise zt.HarnessError("svd stub only models full_matrices=False")
            return sym_svd(x)
        return _orig["svd"](x, full_matrices=full_matrices, **kw)

    def qr(x, *a, **kw):
        if _is_obj(x):
            return sym_qr(x)
        return _orig["qr"](x, *a, **kw)

    def eigh(x, *a, **kw):
        if _is_obj(x):
            return sym_eigh(x)
        return _orig["eigh"](x, *a, **kw)

    def solve(A, b, *a, **kw):
        if _is_obj(A) or _is_obj(b):
            return sym_solve(np.asarray(A, dtype=object), np.asarray(b, dtype=object))
        return _orig["solve"](A, b, *a, **kw)

    nla.svd = svd
    np.linalg.svd = svd
    ar.register_function("numpy", "linalg.svd", svd)
    ar.register_function("numpy", "linalg.qr", qr)
    ar.register_function("numpy", "linalg.eigh", eigh)
    ar.register_function("numpy", "linalg.solve", solve)


STUB_TEXT = [
    "numpy.linalg.qr on object arrays -> fresh Q,R with Q^H Q=I, R upper triangular, QR=x (no sign assumption on diag R)",
    "numpy.linalg.svd(full_matrices=False) on object arrays -> fresh U,s,V with U^H U=I, V V^H=I, s non-increasing >= 0, U diag(s) V = x",
    "numpy.linalg.eigh on object arrays -> fresh W,w with W^H W=I, w ascending, xW=W diag(w); x Hermitian is an obligation",
    "numpy.linalg.solve on object arrays -> fresh y with A y = b",
]


def validate_contracts(n=40, seed=0):
    """the factors numpy's LAPACK actually returns satisfy each stub contract (numerically): -> number validated"""
    import numpy.linalg as nla
    rng = np.random.default_rng(seed)
    ok = 0
    qr_, svd_, eigh_, solve_ = (_orig.get("qr", nla.qr), _orig.get("svd", nla.svd), _orig.get("eigh", nla.eigh), _orig.get("solve", nla.solve))
    for t in range(n):
        m, k = rng.integers(1, 4), rng.integers(1, 4)
        cx = t % 2 == 1
        x = rng.normal(size=(m, k)) + (1j * rng.normal(size=(m, k)) if cx else 0)
        Q, R = qr_(x)
        kk = min(m, k)
        assert Q.shape == (m, kk) and R.shape == (kk, k)
        assert np.allclose(Q.conj().T @ Q, np.eye(kk)) and np.allclose(Q @ R, x) and np.allclose(np.tril(R, -1), 0)
        U, s, V = svd_(x, full_matrices=False)
        assert np.allclose(U.conj().T @ U, np.eye(kk)) and np.allclose(V @ V.conj().T, np.eye(kk))
        assert np.all(s >= 0) and np.all(np.diff(s) <= 1e-12) and np.allclose((U * s) @ V, x)
        h = rng.normal(size=(k, k)) + (1j * rng.normal(size=(k, k)) if cx else 0)
        h = h + h.conj().T
        w, W = eigh_(h)
        assert np.allclose(W.conj().T @ W, np.eye(k)) and np.all(np.diff(w) >= -1e-12) and np.allclose(h @ W, W * w)
        assert np.allclose(W @ W.conj().T, np.eye(k)) and np.allclose((W * w) @ W.conj().T, h)
        A = rng.normal(size=(k, k)) + 3 * np.eye(k)
        b = rng.normal(size=(k,))
        assert np.allclose(A @ solve_(A, b), b)
        ok += 1
    return ok
