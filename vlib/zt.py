"""Engine B core: z3-term scalars that live inside numpy ``object`` arrays, and the path
controller that lets the solver decide every data-dependent branch.

``Z`` wraps a z3 real term (``re``) and optionally an imaginary part (``im``; ``None`` for a real
entry).  numpy executes transpose / reshape / concatenate / slicing / tensordot / einsum / trace /
conj / cumsum / sort / ... on ``dtype=object`` arrays by calling these Python operators, so the
real symmray + numpy code runs unchanged on symbolic data.

``ZB`` is the result of a comparison.  ``ZB.__bool__`` and ``Z.__int__/__index__/__float__`` are
the only places where a symbolic value is forced concrete: they ask the active ``Ctl``.
"""

import itertools
from fractions import Fraction

import numpy as np
import z3


class ModelDtype:
    """dtype reported by a scalar term: behaves as numpy's object dtype, prints as the machine dtype it stands for"""
    dtype = np.dtype(object)
    kind = "O"

    def __init__(self, name):
        self.name = name

    def __str__(self):
        return self.name

    __repr__ = __str__

    def __eq__(self, other):
        return other is self or other == np.dtype(object) or (isinstance(other, str) and other == "object")

    def __hash__(self):
        return hash(np.dtype(object))


_MD_REAL = ModelDtype("float64")
_MD_COMPLEX = ModelDtype("complex128")


class Abort(BaseException):
    """Path is infeasible / controller limit hit (BaseException: never swallowed by library)."""


class HarnessError(Exception):
    pass


_R0 = z3.RealVal(0)
_R1 = z3.RealVal(1)


def _num(x):
    """exact z3 real for a python / numpy real number"""
    if isinstance(x, (bool, np.bool_)):
        return z3.RealVal(int(x))
    if isinstance(x, (int, np.integer)):
        return z3.RealVal(int(x))
    if isinstance(x, Fraction):
        return z3.Q(x.numerator, x.denominator)
    f = float(x)
    if f != f or f in (float("inf"), float("-inf")):
        raise HarnessError(f"non-finite literal {x!r} reached the term layer")
    n, d = f.as_integer_ratio()
    return z3.Q(n, d) if d != 1 else z3.RealVal(n)


# ------------------------------------------------------------------------------------------
# path controller


class Ctl:
    """One run of a body along one decision prefix."""

    def __init__(self, prefix=(), query_timeout_ms=20000):
        self.solver = z3.Solver()
        self.solver.set("timeout", query_timeout_ms)
        # branch feasibility is decided against the path condition only (an over-approximation of feasibility
        # under the stub contracts: it can only add paths, never lose one); the full solver - with the
        # non-linear contracts - decides the obligations.  Witness search under the contracts does not
        # terminate reliably in nlsat and does not honour its time-out.
        self.light = z3.Solver()
        self.light.set("timeout", 5000)
        self.prefix = list(prefix)
        self.trace = []
        self.work = []
        self.assumptions = []  # (text, formula): stub contracts, definitional constraints
        self.nq = 0
        self.unknown = 0
        self.cast_traps = []
        self.obligations = []  # (name, formula)
        self.notes = []
        self.path = []  # decided branch conditions
        self.memo = {}  # (kind, ast ids) -> (fresh var, kept asts): quotient / root / modulus variables

    # -- assumptions (stub contracts, definitions of fresh quotients / roots)
    def assume(self, f, text=None, light=False):
        self.solver.add(f)
        self.assumptions.append((text, f))
        if light:
            # cheap (linear) facts are also given to the branch-feasibility solver to prune impossible orderings
            self.light.add(f)

    def implied(self, c):
        """True / False if the path condition decides c, else None"""
        self.nq += 1
        r = self.light.check(z3.Not(c))
        if r == z3.unsat:
            return True
        self.nq += 1
        r2 = self.light.check(c)
        if r2 == z3.unsat:
            return False
        return None

    def decide(self, cond):
        c = z3.simplify(cond)
        if z3.is_true(c):
            return True
        if z3.is_false(c):
            return False
        i = len(self.trace)
        if i < len(self.prefix):
            d = self.prefix[i]
        else:
            self.nq += 2
            st = self.light.check(c)
            sf = self.light.check(z3.Not(c))
            if st == z3.unknown or sf == z3.unknown:
                self.unknown += 1
            t_ok = st != z3.unsat
            f_ok = sf != z3.unsat
            if t_ok and f_ok:
                d = True
                self.work.append(self.trace + [False])
            elif t_ok:
                d = True
            elif f_ok:
                d = False
            else:
                raise Abort()
        self.trace.append(d)
        f = c if d else z3.Not(c)
        self.path.append(f)
        self.solver.add(f)
        self.light.add(f)
        return d

    def oblige(self, name, f):
        self.obligations.append((name, f))


_CTL = [None]


def ctl():
    c = _CTL[0]
    if c is None:
        raise HarnessError("symbolic decision outside a path controller")
    return c


def have_ctl():
    return _CTL[0] is not None


class PathResult:
    __slots__ = ("decisions", "value", "ctl", "error")

    def __init__(self, decisions, value, ctl, error=None):
        self.decisions, self.value, self.ctl, self.error = decisions, value, ctl, error


def run_paths(body, max_paths=2000, query_timeout_ms=20000):
    """Run ``body()`` once per feasible decision prefix (depth first, deterministic).

    Returns (results, complete).  ``complete`` is False if max_paths was hit (inconclusive)."""
    work = [[]]
    results = []
    while work:
        if len(results) >= max_paths:
            return results, False
        prefix = work.pop()
        c = Ctl(prefix, query_timeout_ms)
        _CTL[0] = c
        try:
            try:
                v = body()
                results.append(PathResult(list(c.trace), v, c))
            except Abort:
                pass
            except Exception as e:  # library raised on this path: a value for the caller to judge
                results.append(PathResult(list(c.trace), None, c, error=e))
        finally:
            _CTL[0] = None
        work.extend(c.work)
    return results, True


# ------------------------------------------------------------------------------------------
# scalars


def _lift(o):
    """-> (re, im|None) z3 terms, or None if not a scalar we understand"""
    if isinstance(o, Z):
        return o.re, o.im
    if isinstance(o, ZB):
        return o.as_real(), None
    if isinstance(o, (bool, np.bool_, int, float, np.integer, np.floating, Fraction)):
        return _num(o), None
    if isinstance(o, (complex, np.complexfloating)):
        return _num(o.real), _num(o.imag)
    if isinstance(o, np.ndarray) and o.ndim == 0:
        return _lift(o.item())
    return None


class ZB:
    """symbolic boolean (comparison result)"""

    __slots__ = ("e",)

    def __init__(self, e):
        self.e = e

    def __bool__(self):
        return ctl().decide(self.e)

    @staticmethod
    def _b(o):
        if isinstance(o, ZB):
            return o.e
        if isinstance(o, (bool, np.bool_)):
            return z3.BoolVal(bool(o))
        return None

    def __and__(s, o):
        b = ZB._b(o)
        return NotImplemented if b is None else ZB(z3.And(s.e, b))

    __rand__ = __and__

    def __or__(s, o):
        b = ZB._b(o)
        return NotImplemented if b is None else ZB(z3.Or(s.e, b))

    __ror__ = __or__

    def __invert__(s):
        return ZB(z3.Not(s.e))

    def as_real(s):
        # fold to 0/1 when the path condition already implies it (keeps terms linear)
        e = z3.simplify(s.e)
        if z3.is_true(e):
            return _R1
        if z3.is_false(e):
            return _R0
        if have_ctl():
            r = ctl().implied(e)
            if r is True:
                return _R1
            if r is False:
                return _R0
        return z3.If(e, _R1, _R0)

    # arithmetic use as 0/1
    def __add__(s, o):
        return Z(s.as_real()) + o

    __radd__ = __add__

    def __mul__(s, o):
        return Z(s.as_real()) * o

    __rmul__ = __mul__

    def __sub__(s, o):
        return Z(s.as_real()) - o

    def __rsub__(s, o):
        return o - Z(s.as_real())

    def __neg__(s):
        return -Z(s.as_real())

    def __index__(s):
        return int(bool(s))

    __int__ = __index__

    def __eq__(s, o):
        b = ZB._b(o)
        return NotImplemented if b is None else ZB(s.e == b)

    def __ne__(s, o):
        b = ZB._b(o)
        return NotImplemented if b is None else ZB(s.e != b)

    __hash__ = None

    def __repr__(s):
        return f"ZB({s.e})"


_fresh = itertools.count()


def fresh_real(prefix):
    return z3.Real(f"{prefix}!{next(_fresh)}")


def _is_zero(e):
    return e is None or z3.is_rational_value(e) and e.numerator_as_long() == 0


class Z:
    """z3-term scalar; real if ``im is None`` else complex (pair of real terms)"""

    __slots__ = ("re", "im")

    def __init__(self, re, im=None):
        self.re = re
        self.im = im

    # numpy-scalar-like surface (numpy hands back a bare element for full contractions)
    shape = ()
    ndim = 0
    size = 1

    def item(self):
        return self

    def reshape(self, *shape):
        a = np.empty((), dtype=object)
        a[()] = self
        return a.reshape(*shape)

    @property
    def real(self):
        return Z(self.re)

    @property
    def imag(self):
        return Z(self.im if self.im is not None else _R0)

    @property
    def dtype(self):
        # numpy accepts it wherever a dtype is expected (np.dtype(x) reads x.dtype -> object), it compares equal to the object dtype,
        # and its *name* is the modelled machine dtype - the same convention as the patched autoray.get_dtype_name for term blocks
        return _MD_COMPLEX if self.im is not None else _MD_REAL

    def conjugate(self):
        if self.im is None:
            return self
        return Z(self.re, -self.im)

    conj = conjugate

    def is_complex(self):
        return self.im is not None

    # -- arithmetic
    def __add__(s, o):
        l = _lift(o)
        if l is None:
            return NotImplemented
        r, i = l
        if s.im is None and i is None:
            return Z(s.re + r)
        return Z(s.re + r, (s.im if s.im is not None else _R0) + (i if i is not None else _R0))

    __radd__ = __add__

    def __sub__(s, o):
        l = _lift(o)
        if l is None:
            return NotImplemented
        r, i = l
        if s.im is None and i is None:
            return Z(s.re - r)
        return Z(s.re - r, (s.im if s.im is not None else _R0) - (i if i is not None else _R0))

    def __rsub__(s, o):
        l = _lift(o)
        if l is None:
            return NotImplemented
        r, i = l
        if s.im is None and i is None:
            return Z(r - s.re)
        return Z(r - s.re, (i if i is not None else _R0) - (s.im if s.im is not None else _R0))

    def __mul__(s, o):
        l = _lift(o)
        if l is None:
            return NotImplemented
        r, i = l
        if s.im is None and i is None:
            return Z(s.re * r)
        a, b = s.re, (s.im if s.im is not None else _R0)
        c, d = r, (i if i is not None else _R0)
        return Z(a * c - b * d, a * d + b * c)

    __rmul__ = __mul__

    def __neg__(s):
        return Z(-s.re, None if s.im is None else -s.im)

    def __pos__(s):
        return s

    @staticmethod
    def _div_real(num, den):
        """num / den for real z3 terms: exact for literals, folded for x/±x, else fresh quotient"""
        den_s = z3.simplify(den)
        if z3.is_rational_value(den_s):
            if den_s.numerator_as_long() == 0:
                raise ZeroDivisionError("division by literal zero")
            return num * z3.Q(den_s.denominator_as_long(), den_s.numerator_as_long())
        num_s = z3.simplify(num)
        if z3.is_rational_value(num_s) and num_s.numerator_as_long() == 0:
            _nonzero(den_s)
            return _R0
        if z3.eq(num_s, den_s):
            _nonzero(den_s)
            return _R1
        if z3.eq(num_s, z3.simplify(-den_s)) or z3.eq(z3.simplify(-num_s), den_s):
            _nonzero(den_s)
            return z3.RealVal(-1)
        # one quotient variable per (num, den): x/y computed twice is the same term
        c = ctl()
        key = ("q", num_s.get_id(), den_s.get_id())
        hit = c.memo.get(key)
        if hit is not None:
            return hit[0]
        _nonzero(den_s)
        q = fresh_real("q")
        c.assume(q * den_s == num_s, "quotient definition q*den==num")
        c.memo[key] = (q, num_s, den_s)
        return q

    def __truediv__(s, o):
        l = _lift(o)
        if l is None:
            return NotImplemented
        r, i = l
        if i is None:
            return Z(Z._div_real(s.re, r), None if s.im is None else Z._div_real(s.im, r))
        # complex denominator: multiply by conjugate
        den = r * r + i * i
        a, b = s.re, (s.im if s.im is not None else _R0)
        return Z(Z._div_real(a * r + b * i, den), Z._div_real(b * r - a * i, den))

    def __rtruediv__(s, o):
        l = _lift(o)
        if l is None:
            return NotImplemented
        return Z(*l) / s

    def __pow__(s, p):
        if isinstance(p, Z):
            raise NotImplementedError("symbolic exponent")
        if p == 1:
            return s
        if p == 2:
            return s * s
        if p == 3:
            return s * s * s
        if p == 0.5:
            return s.sqrt()
        if p == 0:
            return Z(_R1)
        if p == -1:
            return 1 / s
        raise NotImplementedError(f"power {p!r}")

    def __rpow__(s, o):
        raise NotImplementedError("symbolic exponent")

    def sqrt(s):
        if s.im is not None:
            ims = z3.simplify(s.im)
            if not (z3.is_rational_value(ims) and ims.numerator_as_long() == 0):
                raise NotImplementedError("sqrt of complex term")
        x = z3.simplify(s.re)
        if z3.is_rational_value(x):
            fr = Fraction(x.numerator_as_long(), x.denominator_as_long())
            if fr >= 0:
                import math

                rn, rd = math.isqrt(fr.numerator), math.isqrt(fr.denominator)
                if rn * rn == fr.numerator and rd * rd == fr.denominator:
                    return Z(z3.Q(rn, rd))
        c = ctl()
        key = ("sqrt", x.get_id())
        hit = c.memo.get(key)
        if hit is not None:
            return Z(hit[0])
        r = fresh_real("sqrt")
        c.assume(z3.And(r >= 0, r * r == x), "root definition r>=0, r*r==x (x>=0 obliged)")
        c.memo[key] = (r, x)
        return Z(r)

    def __abs__(s):
        if s.im is not None:
            c = ctl()
            m2 = z3.simplify(s.re * s.re + s.im * s.im)
            key = ("abs", m2.get_id())
            hit = c.memo.get(key)
            if hit is not None:
                return Z(hit[0])
            r = fresh_real("abs")
            c.assume(z3.And(r >= 0, r * r == m2), "modulus definition")
            c.memo[key] = (r, m2)
            return Z(r)
        # lazily: |x|**2 and |x|*|x| never need the sign; any other use forks three ways on it
        return ZAbs(s.re)

    # -- comparisons (real only)
    def _cmp(s, o, op):
        l = _lift(o)
        if l is None:
            return NotImplemented
        r, i = l
        if s.im is not None or i is not None:
            if op in ("eq", "ne"):
                a = z3.And(s.re == r, (s.im if s.im is not None else _R0) == (i if i is not None else _R0))
                return ZB(a if op == "eq" else z3.Not(a))
            raise TypeError("ordering of complex terms")
        return ZB(
            {
                "lt": lambda: s.re < r,
                "le": lambda: s.re <= r,
                "gt": lambda: s.re > r,
                "ge": lambda: s.re >= r,
                "eq": lambda: s.re == r,
                "ne": lambda: s.re != r,
            }[op]()
        )

    def __lt__(s, o):
        return s._cmp(o, "lt")

    def __le__(s, o):
        return s._cmp(o, "le")

    def __gt__(s, o):
        return s._cmp(o, "gt")

    def __ge__(s, o):
        return s._cmp(o, "ge")

    def __eq__(s, o):
        return s._cmp(o, "eq")

    def __ne__(s, o):
        return s._cmp(o, "ne")

    __hash__ = None

    # -- forced concretisation
    def __bool__(s):
        if s.im is None:
            return ctl().decide(s.re != 0)
        return ctl().decide(z3.Or(s.re != 0, s.im != 0))

    def _concrete_int(s, why):
        """value forced to a python int: the solver enumerates feasible integer values"""
        c = ctl()
        e = z3.simplify(s.re)
        if z3.is_rational_value(e) and e.denominator_as_long() == 1:
            return e.numerator_as_long()
        # enumerate small non-negative integers first (counts), then give up
        for k in range(0, 65):
            if c.decide(e == k):
                return k
        raise Abort()

    def __index__(s):
        return s._concrete_int("index")

    def __int__(s):
        # int() truncates toward zero; the solver enumerates the feasible integer results
        c = ctl()
        e = z3.simplify(s.re)
        if z3.is_rational_value(e):
            fr = Fraction(e.numerator_as_long(), e.denominator_as_long())
            return int(fr)
        if c.decide(e >= 0):
            for k in range(0, 65):
                if c.decide(z3.And(e >= k, e < k + 1)):
                    return k
        else:
            for k in range(0, 65):
                if c.decide(z3.And(e <= -k, e > -k - 1)):
                    return -k
        raise Abort()

    def __float__(s):
        e = z3.simplify(s.re)
        if z3.is_rational_value(e) and _is_zero(s.im if s.im is None else z3.simplify(s.im)):
            return e.numerator_as_long() / e.denominator_as_long()
        if have_ctl():
            ctl().cast_traps.append(("float", str(e)[:80]))
        raise TypeError("cast trap: symbolic entry forced to a machine float")

    def __complex__(s):
        e = z3.simplify(s.re)
        i = _R0 if s.im is None else z3.simplify(s.im)
        if z3.is_rational_value(e) and z3.is_rational_value(i):
            return complex(
                e.numerator_as_long() / e.denominator_as_long(),
                i.numerator_as_long() / i.denominator_as_long(),
            )
        if have_ctl():
            ctl().cast_traps.append(("complex", str(e)[:80]))
        raise TypeError("cast trap: symbolic entry forced to a machine complex")

    def __repr__(s):
        if s.im is None:
            return f"Z({z3.simplify(s.re)})"
        return f"Z({z3.simplify(s.re)} + i*({z3.simplify(s.im)}))"


class ZAbs(Z):
    """|x| of a real term.  The sign of x is decided (three-way, through the path controller)
    only when the value itself is needed; squaring does not need it."""

    __slots__ = ("_inner", "_val")

    def __init__(self, inner):
        self._inner = inner
        self._val = None
        self.im = None

    @property
    def re(self):
        if self._val is None:
            c = ctl()
            if c.decide(self._inner > 0):
                self._val = self._inner
            elif c.decide(self._inner < 0):
                self._val = -self._inner
            else:
                self._val = _R0
        return self._val

    @re.setter
    def re(self, v):
        self._val = v

    def __pow__(s, p):
        if p == 2:
            return Z(s._inner * s._inner)
        return Z.__pow__(s, p)

    def __mul__(s, o):
        if isinstance(o, ZAbs) and z3.eq(o._inner, s._inner):
            return Z(s._inner * s._inner)
        return Z.__mul__(s, o)

    __rmul__ = __mul__

    def __abs__(s):
        return s


# autoray infers the backend from the defining module of a value's class: numpy hands back bare
# elements (not 0-d arrays) from full contractions of object arrays, and library code then treats them
# like numpy scalars (np.float64 lives in module "numpy")
for _cls in (Z, ZAbs, ZB):
    _cls.__module__ = "numpy"


def _nonzero(den):
    """side condition of a division: numpy would give inf/nan — outside the claim (reals for
    floats, no non-finite data); recorded as an assumption of the path."""
    if have_ctl():
        ctl().assume(den != 0, "input: division denominator non-zero")


# ------------------------------------------------------------------------------------------
# helpers to build / read symbolic arrays


def int_var(name):
    """a symbolic *integer* (as a real-valued term)"""
    return Z(z3.ToReal(z3.Int(name)))


def var(name, complex_=False):
    if complex_:
        return Z(z3.Real(name + ".re"), z3.Real(name + ".im"))
    return Z(z3.Real(name))


def symfill(shape, prefix, complex_=False):
    a = np.empty(shape, dtype=object)
    for idx in np.ndindex(*shape):
        a[idx] = var(prefix + "[" + ",".join(map(str, idx)) + "]", complex_)
    return a


def as_Z(v):
    """normalise any scalar-like result (bare element, 0-d object array, python number)"""
    if isinstance(v, Z):
        return v
    if isinstance(v, np.ndarray):
        if v.size != 1:
            raise HarnessError(f"expected scalar, got shape {v.shape}")
        return as_Z(v.reshape(-1)[0])
    l = _lift(v)
    if l is None:
        raise HarnessError(f"not a scalar term: {type(v)}")
    return Z(*l)


def parts(v):
    """-> (re, im) z3 terms of any scalar-like"""
    z = as_Z(v)
    return z.re, (z.im if z.im is not None else _R0)


def _diff_is_zero(x, y):
    """x == y stated as  normal_form(x - y) == 0 : z3's simplifier expands the difference into a sum of
    monomials (som) so that polynomial identities are decided by the solver on a canonical term instead
    of by nlsat search (which does not finish on degree-4 identities in ~50 variables)"""
    d = z3.simplify(x - y, som=True)
    for _ in range(4):  # one pass leaves products of sums created by the first expansion
        if z3.is_rational_value(d):
            break
        d2 = z3.simplify(d, som=True)
        if z3.eq(d2, d):
            break
        d = d2
    return d == _R0


def eq_formula(a, b):
    ar_, ai = parts(a)
    br, bi = parts(b)
    fr = _diff_is_zero(ar_, br)
    if _is_zero(ai) and _is_zero(bi):
        return fr
    return z3.And(fr, _diff_is_zero(ai, bi))


def is_symbolic_array(x):
    return isinstance(x, np.ndarray) and x.dtype == object


# ------------------------------------------------------------------------------------------
# linear abstraction: every non-linear monomial becomes an opaque real atom.  If the abstraction of
# (assumptions & path & not goal) is unsat, so is the original (the abstraction only has more models).


class Linearizer:
    def __init__(self, squares=None):
        self.atoms = {}
        self.cache = {}
        # r.get_id() -> radicand, for fresh roots r (r*r == radicand is an assumption): r*r is rewritten
        self.squares = squares or {}

    def atom(self, key):
        a = self.atoms.get(key)
        if a is None:
            a = z3.Real(f"m!{len(self.atoms)}")
            self.atoms[key] = a
        return a

    def lin(self, e):
        i = e.get_id()
        r = self.cache.get(i)
        if r is not None:
            return r[0]
        r = self._lin(e)
        self.cache[i] = (r, e)
        return r

    def _lin(self, e):
        if z3.is_const(e) or z3.is_rational_value(e) or z3.is_var(e):
            return e
        k = e.decl().kind()
        ch = [self.lin(c) for c in e.children()]
        if k == z3.Z3_OP_MUL:
            coef = [c for c in ch if z3.is_rational_value(c)]
            rest = [c for c in ch if not z3.is_rational_value(c)]
            if self.squares:
                # expand small integer powers and replace pairs of a root variable by its radicand
                flat = []
                for c0 in e.children():
                    if z3.is_rational_value(c0):
                        continue
                    if c0.decl().kind() == z3.Z3_OP_POWER and z3.is_rational_value(c0.arg(1)) and c0.arg(1).denominator_as_long() == 1 \
                            and 1 <= c0.arg(1).numerator_as_long() <= 4:
                        flat += [c0.arg(0)] * c0.arg(1).numerator_as_long()
                    else:
                        flat.append(c0)
                changed = False
                for rid, rad in self.squares.items():
                    while sum(1 for f in flat if f.get_id() == rid) >= 2:
                        n = 0
                        new = []
                        for f in flat:
                            if f.get_id() == rid and n < 2:
                                n += 1
                                continue
                            new.append(f)
                        flat = new + [rad]
                        changed = True
                if changed:
                    prod = flat[0]
                    for f in flat[1:]:
                        prod = prod * f
                    for c0 in coef:
                        prod = c0 * prod
                    return self.lin(z3.simplify(prod, som=True))
            if len(rest) >= 2:
                key = ("mul",) + tuple(sorted(c.get_id() for c in rest))
                a = self.atom(key)
                self.cache[("keep", key)] = rest
                out = a
                for c in coef:
                    out = c * out
                return out
            return e.decl()(*ch) if ch else e
        if k == z3.Z3_OP_POWER and self.squares and e.arg(0).get_id() in self.squares and z3.is_rational_value(e.arg(1)) \
                and e.arg(1).denominator_as_long() == 1 and e.arg(1).numerator_as_long() == 2:
            return self.lin(self.squares[e.arg(0).get_id()])
        if k == z3.Z3_OP_POWER and z3.is_rational_value(e.arg(1)) and e.arg(1).denominator_as_long() == 1 and 2 <= e.arg(1).numerator_as_long() <= 4:
            # x^k and x*...*x are the same monomial
            b = ch[0]
            key = ("mul",) + tuple([b.get_id()] * e.arg(1).numerator_as_long())
            self.cache[("keep", key)] = [b]
            return self.atom(key)
        if k == z3.Z3_OP_POWER:
            key = ("pow",) + tuple(c.get_id() for c in ch)
            self.cache[("keep", key)] = ch
            return self.atom(key)
        if k in (z3.Z3_OP_DIV, z3.Z3_OP_IDIV) and not z3.is_rational_value(ch[1]):
            key = ("div",) + tuple(c.get_id() for c in ch)
            self.cache[("keep", key)] = ch
            return self.atom(key)
        try:
            return e.decl()(*ch)
        except Exception:
            return e
