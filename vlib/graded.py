"""Independent dense graded-tensor (Z2-graded / Grassmann) calculus, used as the oracle for the
fermionic properties (C03, C04, C06, C09, C10).

A graded tensor is a dict from multi-index to value, with per-leg kind:
  ('d', dual, label)  a dummy odd leg (one per odd-position label of an odd-parity array; kept at
                      the left), index value always 0, always odd;
  ('r', dual, None)   a real leg, index value (charge, offset), odd iff the charge has odd parity.

* permute : Koszul sign = parity of the number of inversions among odd legs (a different algorithm
  from the library's moved-set loop);
* contract: operands are brought adjacent (dummies first, then a's free legs, a's contracted legs,
  b's contracted legs in reverse order, b's free legs); each pair is evaluated innermost first with
  one extra sign per odd contracted index that meets as ket-then-bra;
* label canonicalisation: dummy legs are brought to a target (label, dual) tuple with the Koszul
  sign; conjugate label pairs absent from the target are annihilated as bra-ket pairs.
"""

import numpy as np

from . import sym as gs
from . import oracle as orc


class GT:
    def __init__(self, sym, legs, el):
        self.sym, self.legs, self.el = sym, list(legs), dict(el)

    def odd(self, k, v):
        return 1 if self.legs[k][0] == "d" else gs.parity(self.sym, v[0])

    def permute(self, perm):
        new = {}
        n = len(perm)
        legs = self.legs
        for idx, val in self.el.items():
            odd = [self.odd(p, idx[p]) for p in perm]
            inv = 0
            for i in range(n):
                if odd[i]:
                    for j in range(i + 1, n):
                        if odd[j] and perm[i] > perm[j]:
                            inv += 1
            new[tuple(idx[p] for p in perm)] = -val if inv % 2 else val
        return GT(self.sym, [legs[p] for p in perm], new)

    def ndummy(self):
        return sum(1 for l in self.legs if l[0] == "d")

    def real_coords(self):
        """{address over real legs: value} (dummy legs stripped; they must all be at the left)"""
        nd = self.ndummy()
        assert all(l[0] == "d" for l in self.legs[:nd]) and all(l[0] == "r" for l in self.legs[nd:])
        return {k[nd:]: v for k, v in self.el.items()}

    def labels(self):
        return tuple((l[2], l[1]) for l in self.legs if l[0] == "d")


def from_array(x):
    """graded tensor of a library FermionicArray (pending signs applied, labels -> dummy legs)"""
    sym = orc.symname(x)
    legs = [("d", bool(op.dual), op.label) for op in x.oddpos] + [("r", bool(ix.dual), None) for ix in x.indices]
    nd = len(x.oddpos)
    el = {}
    for k, v in orc.coords(x).items():
        el[(0,) * nd + k] = v
    return GT(sym, legs, el)


def tprod(A, B):
    el = {}
    for ia, va in A.el.items():
        for ib, vb in B.el.items():
            el[ia + ib] = va * vb
    return GT(A.sym, A.legs + B.legs, el)


def _contract_adjacent(T, i):
    (k1, d1, _), (k2, d2, _) = T.legs[i], T.legs[i + 1]
    if d1 == d2:
        raise ValueError("contracted legs have the same direction")
    el = {}
    for idx, val in T.el.items():
        if idx[i] != idx[i + 1]:
            continue
        s = -1 if ((not d1) and T.odd(i, idx[i])) else 1  # ket then bra
        key = idx[:i] + idx[i + 2:]
        v = -val if s == -1 else val
        el[key] = (el[key] + v) if key in el else v
    return GT(T.sym, T.legs[:i] + T.legs[i + 2:], el)


def contract(A, B, axes_a, axes_b):
    """axes refer to *real* legs of A and B"""
    na, nb = len(A.legs), len(B.legs)
    dA = [k for k in range(na) if A.legs[k][0] == "d"]
    dB = [k for k in range(nb) if B.legs[k][0] == "d"]
    ra = [k for k in range(na) if A.legs[k][0] == "r"]
    rb = [k for k in range(nb) if B.legs[k][0] == "r"]
    ca = [ra[a] for a in axes_a]
    cb = [rb[b] for b in axes_b]
    fa = [k for k in ra if k not in ca]
    fb = [k for k in rb if k not in cb]
    T = tprod(A, B)
    order = dA + [na + k for k in dB] + fa + ca + [na + k for k in reversed(cb)] + [na + k for k in fb]
    T = T.permute(order)
    pos = len(dA) + len(dB) + len(fa) + len(ca) - 1
    for _ in range(len(ca)):
        T = _contract_adjacent(T, pos)
        pos -= 1
    return T


def canon_labels(T, target):
    """bring dummy legs to `target` ((label, dual), ...); annihilate conjugate pairs not in target"""
    target = list(target)
    nd = T.ndummy()
    while True:
        cur = [(l[2], l[1]) for l in T.legs[:nd]]
        # pairs to annihilate: labels occurring with both directions, beyond what target keeps
        found = None
        for i in range(nd):
            for j in range(nd):
                if i != j and cur[i][0] == cur[j][0] and cur[i][1] and not cur[j][1]:
                    lab = cur[i][0]
                    keep = sum(1 for t in target if t[0] == lab)
                    have = sum(1 for c in cur if c[0] == lab)
                    if have > keep:
                        found = (i, j)
                        break
            if found:
                break
        if not found:
            break
        i, j = found  # i bra (dual), j ket: <l|l> = 1 when brought adjacent as (bra, ket)
        rest = [k for k in range(len(T.legs)) if k not in (i, j)]
        T = T.permute([i, j] + rest)
        T = GT(T.sym, T.legs[2:], {idx[2:]: v for idx, v in T.el.items()})
        nd -= 2
    cur = [(l[2], l[1]) for l in T.legs[:nd]]
    if sorted(map(repr, cur)) != sorted(map(repr, target)):
        raise LabelMismatch(cur, target)
    used = set()
    perm = []
    for t in target:
        for k, c in enumerate(cur):
            if k not in used and c == t:
                used.add(k)
                perm.append(k)
                break
    perm += list(range(nd, len(T.legs)))
    return T.permute(perm)


class LabelMismatch(Exception):
    def __init__(self, cur, target):
        super().__init__(f"oracle labels {cur} vs library labels {target}")
        self.cur, self.target = cur, target


def koszul(parities, perm):
    """sign of the permutation restricted to odd entries (inversion count)"""
    inv = 0
    n = len(perm)
    for i in range(n):
        if parities[perm[i]]:
            for j in range(i + 1, n):
                if parities[perm[j]] and perm[i] > perm[j]:
                    inv += 1
    return -1 if inv % 2 else 1
