"""Aggregation of case results, known-finding handling, evidence file, exit code."""

import hashlib
import json
import os
import time

from . import env

EXIT_OK, EXIT_VIOLATION, EXIT_HARNESS = 0, 1, 3


def _jsonable(o):
    if isinstance(o, dict):
        return {str(k): _jsonable(v) for k, v in o.items()}
    if isinstance(o, (list, tuple)):
        return [_jsonable(v) for v in o]
    if isinstance(o, (str, int, float, bool)) or o is None:
        return o
    return repr(o)


def load_findings():
    p = os.path.join(env.VERIF, "known_findings.json")
    if not os.path.exists(p):
        return []
    return json.load(open(p))["findings"]


class Report:
    def __init__(self, pid, tier, seed):
        self.pid, self.tier, self.seed = pid, tier, int(seed)
        self.t0 = time.time()
        self.groups = {}  # group name -> counters
        self.violations = []
        self.harness_errors = []
        self.samples = []
        self.functions = []
        self.bounds = {}
        self.outside = []
        self.stubs = []
        self.assumptions = []
        self.trusted = ["z3 4.x/5.x (python wheel in the overlay)", "numpy object-array semantics",
                        "vlib.zt term arithmetic (validated against numpy on every run)"]
        self.notes = []
        self.exhaustive = True
        self.xh = []  # crosshair condition results
        self.explanation = ""
        self.rule = ""

    # ---- engine B
    def add_cases(self, group, results, exhaustive=True, tags=None):
        g = self.groups.setdefault(group, dict(cases=0, nontrivial=0, paths=0, obligations=0,
                                               discharged=0, inconclusive=0, canaries=0,
                                               canaries_ok=0, queries=0, solver_s=0.0, validated=0,
                                               cast_traps=0, violations=0, exhaustive=True))
        g["exhaustive"] = g["exhaustive"] and exhaustive
        self.exhaustive = self.exhaustive and exhaustive
        for r in results:
            g["cases"] += 1
            g["nontrivial"] += bool(r.nontrivial)
            for k in ("paths", "obligations", "discharged", "inconclusive", "canaries", "canaries_ok",
                      "queries", "validated", "cast_traps"):
                g[k] += getattr(r, k)
            g["solver_s"] += r.solver_s
            for n, k in getattr(r, "notes", {}).items():
                g.setdefault("notes", {})
                g["notes"][n] = g["notes"].get(n, 0) + k
            g["violations"] += len(r.violations)
            for v in r.violations:
                v = dict(v)
                v["group"] = group
                if tags:
                    v.setdefault("tags", {}).update(tags)
                self.violations.append(v)
            for h in r.harness_errors:
                self.harness_errors.append(f"[{group}] {h}")
            for t in getattr(r, "timeouts", []):
                self.notes.append(f"[{group}] case exceeded its wall-clock limit (inconclusive): {t}")
            if r.sample is not None and sum(1 for s in self.samples if s.get("group") == group) < 2:
                s = dict(r.sample)
                s["group"] = group
                self.samples.append(s)

    # ---- engine A
    def add_xh(self, results):
        self.xh.extend(results)

    # ---- output
    def finish(self, classify=None):
        findings = [f for f in load_findings() if f["property"] == self.pid]
        known_hit = {}
        new = []
        for v in self.violations:
            tags = v.get("tags", {})
            if classify:
                tags = dict(tags, **(classify(v) or {}))
                v["tags"] = tags
            hit = None
            for f in findings:
                if f.get("status") != "known":
                    continue
                if all(tags.get(k) == val for k, val in f["match"].items()):
                    hit = f
                    break
            if hit:
                known_hit.setdefault(hit["id"], (hit, 0))
                known_hit[hit["id"]] = (hit, known_hit[hit["id"]][1] + 1)
            else:
                new.append(v)
        for fid, (f, n) in sorted(known_hit.items()):
            print(f"KNOWN-FINDING: property={self.pid} {f['text']} [{fid}; {n} instance(s) this run]")
        # write replays for new violations (at most 20 files, one line each)
        OUT = os.environ.get("VERIF_OUT", env.VERIF)  # (scratch output dir for sensitivity runs against patched copies)
        os.makedirs(os.path.join(OUT, "replays", self.pid), exist_ok=True)
        printed = 0
        for v in new:
            blob = json.dumps(_jsonable(v), sort_keys=True)
            h = hashlib.sha1(blob.encode()).hexdigest()[:12]
            path = os.path.join(OUT, "replays", self.pid, f"{h}.json")
            if printed < 20:
                with open(path, "w") as fh:
                    json.dump({"property": self.pid, "violation": _jsonable(v),
                               "spec_repr": repr(v.get("spec")), "values_repr": repr(v.get("values"))}, fh, indent=1)
                print(f"VIOLATION property={self.pid} replay={path}")
                print(f"  {v.get('group')} :: {v.get('name')} :: {str(v.get('detail'))[:300]}")
                printed += 1
        if len(new) > printed:
            print(f"  ... and {len(new) - printed} more violations of {self.pid} (not written)")
        for h in self.harness_errors[:20]:
            print(f"HARNESS-ERROR property={self.pid} {h[:400]}")
        tot = lambda k: sum(g[k] for g in self.groups.values())
        xh_n = len(self.xh)
        xh_conf = sum(1 for r in self.xh if r["status"] == "confirmed")
        xh_inc = sum(1 for r in self.xh if r["status"] == "inconclusive")
        inconc = (tot("inconclusive") if self.groups else 0) + xh_inc
        if inconc:
            print(f"INCONCLUSIVE property={self.pid} n={inconc}")
        obligations = (tot("obligations") if self.groups else 0) + xh_n
        discharged = (tot("discharged") if self.groups else 0) + xh_conf
        evaluations = (tot("paths") if self.groups else 0) + xh_n
        nontrivial = (tot("nontrivial") if self.groups else 0) + sum(1 for r in self.xh if r.get("paths_hint", 2) > 1)
        samples = self.samples[:8] + [
            {"crosshair_condition": r["cond"], "status": r["status"], "seconds": round(r["seconds"], 1)}
            for r in self.xh[:4]]
        ev = {
            "property_id": self.pid,
            "tier": self.tier,
            "seed": self.seed,
            "level": "other",
            "wall_s": round(time.time() - self.t0, 2),
            "violations": len(new),
            "assumptions": self.assumptions,
            "coverage": {
                "explanation": self.explanation,
                "rule": self.rule,
                "evaluations": int(evaluations),
                "distinct_nontrivial": int(nontrivial),
                "obligations": int(obligations),
                "discharged": int(discharged),
                "inconclusive": int(inconc),
                "symbolic_paths": int(tot("paths")) if self.groups else 0,
                "structures_enumerated": int(tot("cases")) if self.groups else 0,
                "solver_queries": int(tot("queries")) if self.groups else 0,
                "solver_s": round(tot("solver_s"), 2) if self.groups else 0.0,
                "traces_validated_against_impl": int(tot("validated")) if self.groups else 0,
                "canaries": int(tot("canaries")) if self.groups else 0,
                "canaries_falsified": int(tot("canaries_ok")) if self.groups else 0,
                "cast_traps": int(tot("cast_traps")) if self.groups else 0,
                "exhaustive": bool(self.exhaustive),
                "groups": self.groups,
                "crosshair_conditions": xh_n,
                "crosshair_confirmed": xh_conf,
                "crosshair_inconclusive": xh_inc,
                "crosshair": [{k: r[k] for k in ("cond", "status", "seconds")} for r in self.xh],
                "functions_encoded": self.functions,
                "bounds": self.bounds,
                "outside_bounds": self.outside,
                "stubs": self.stubs,
                "trusted_base": self.trusted,
                "samples": _jsonable(samples) or [{"note": "no case produced a sample"}],
                "known_findings_hit": {k: n for k, (f, n) in known_hit.items()},
                "harness_errors": self.harness_errors[:20],
                "notes": self.notes,
                "repo": env.REPO,
            },
        }
        os.makedirs(os.path.join(OUT, "evidence"), exist_ok=True)
        with open(os.path.join(OUT, "evidence", f"{self.pid}.json"), "w") as fh:
            json.dump(ev, fh, indent=1)
        print(f"{self.pid} {self.tier}: structures={ev['coverage']['structures_enumerated']} paths={ev['coverage']['symbolic_paths']} "
              f"obligations={obligations} discharged={discharged} inconclusive={inconc} "
              f"xh={xh_conf}/{xh_n} known={sum(n for _, n in known_hit.values())} new_violations={len(new)} "
              f"harness_errors={len(self.harness_errors)} wall={ev['wall_s']}s")
        if new:
            return EXIT_VIOLATION
        if self.harness_errors:
            return EXIT_HARNESS
        return EXIT_OK
