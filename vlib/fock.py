"""Second-quantised operators as explicit occupation-number matrices (Jordan-Wigner), written from
the canonical anticommutation relations: the independent oracle for C18/C19.

Modes are given as an ordered list of labels.  Basis state index = sum n_k 2^k; index 0 is the vacuum.
An operator string is a sequence of (label, creation?) applied right-to-left to a ket, as written."""

import numpy as np


class Fock:
    def __init__(self, labels):
        self.labels = list(labels)
        self.m = len(self.labels)
        self.dim = 1 << self.m
        self._cache = {}

    def op(self, label, creation):
        key = (label, bool(creation))
        M = self._cache.get(key)
        if M is not None:
            return M
        j = self.labels.index(label)
        M = np.zeros((self.dim, self.dim), dtype=object)
        for st in range(self.dim):
            occ = (st >> j) & 1
            sign = -1 if bin(st & ((1 << j) - 1)).count("1") % 2 else 1
            if creation and not occ:
                M[st | (1 << j), st] = sign
            elif (not creation) and occ:
                M[st & ~(1 << j), st] = sign
        self._cache[key] = M
        return M

    def string(self, ops):
        """matrix of the product op_1 op_2 ... op_n (as written, left to right)"""
        M = np.zeros((self.dim, self.dim), dtype=object)
        for i in range(self.dim):
            M[i, i] = 1
        for label, creation in ops:
            M = M.dot(self.op(label, creation))
        return M

    def vev(self, ops):
        """<0| op_1 ... op_n |0> : an integer in {-1, 0, 1}"""
        # apply to the vacuum from the right: cheaper than full matrices
        vec = {0: 1}
        for label, creation in reversed(list(ops)):
            j = self.labels.index(label)
            new = {}
            for st, amp in vec.items():
                occ = (st >> j) & 1
                sign = -1 if bin(st & ((1 << j) - 1)).count("1") % 2 else 1
                if creation and not occ:
                    new[st | (1 << j)] = new.get(st | (1 << j), 0) + sign * amp
                elif (not creation) and occ:
                    t = st & ~(1 << j)
                    new[t] = new.get(t, 0) + sign * amp
            vec = {k: v for k, v in new.items() if v != 0}
            if not vec:
                return 0
        return vec.get(0, 0)

    def apply(self, ops, vec):
        """apply the string to a ket given as {state index: amplitude}"""
        for label, creation in reversed(list(ops)):
            j = self.labels.index(label)
            new = {}
            for st, amp in vec.items():
                occ = (st >> j) & 1
                sign = -1 if bin(st & ((1 << j) - 1)).count("1") % 2 else 1
                if creation and not occ:
                    k = st | (1 << j)
                elif (not creation) and occ:
                    k = st & ~(1 << j)
                else:
                    continue
                v = amp if sign == 1 else -amp
                new[k] = (new[k] + v) if k in new else v
            vec = new
        return vec
