import argparse
import importlib
import json
import os
import sys

from . import env  # noqa


def main():
    ap = argparse.ArgumentParser()
    ap.add_argument("pid")
    ap.add_argument("--tier", default=os.environ.get("VERIF_TIER", "quick"), choices=["quick", "thorough"])
    ap.add_argument("--replay", default=None)
    ap.add_argument("--only", default=None, help="development: run only groups whose name contains this")
    a = ap.parse_args()
    seed = int(os.environ.get("VERIF_SEED", "0") or 0)
    mod = importlib.import_module(f"props.{a.pid.lower()}")
    if a.replay:
        from .replay import replay_file
        sys.exit(replay_file(mod, a.pid, a.replay))
    sys.exit(mod.run(a.tier, seed, only=a.only))


if __name__ == "__main__":
    sys.path.insert(0, env.VERIF)
    main()
