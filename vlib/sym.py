"""Independent charge arithmetic (written from the group definitions, not imported from the
library): used by every oracle so that a change to symmray.symmetries cannot hide itself."""
import itertools

NAMES = ("Z2", "Z4", "U1", "Z2Z2", "U1U1")


def identity(sym):
    return (0, 0) if sym in ("Z2Z2", "U1U1") else 0


def combine(sym, charges):
    if sym == "Z2":
        return sum(charges) % 2
    if sym == "Z4":
        return sum(charges) % 4
    if sym == "U1":
        return sum(charges)
    if sym == "Z2Z2":
        a = b = 0
        for x, y in charges:
            a = (a + x) % 2
            b = (b + y) % 2
        return (a, b)
    if sym == "U1U1":
        return (sum(c[0] for c in charges), sum(c[1] for c in charges))
    raise ValueError(sym)


def neg(sym, c):
    if sym == "Z2":
        return c % 2
    if sym == "Z4":
        return (-c) % 4
    if sym == "U1":
        return -c
    if sym == "Z2Z2":
        return (c[0] % 2, c[1] % 2)
    if sym == "U1U1":
        return (-c[0], -c[1])
    raise ValueError(sym)


def signed(sym, c, dual):
    return neg(sym, c) if dual else c


def parity(sym, c):
    if sym in ("Z2", "Z4", "U1"):
        return c % 2
    return (c[0] + c[1]) % 2


def sector_charge(sym, sector, duals):
    return combine(sym, [signed(sym, c, d) for c, d in zip(sector, duals)])


def valid_sectors(sym, charge_lists, duals, charge):
    out = []
    for sec in itertools.product(*charge_lists):
        if sector_charge(sym, sec, duals) == charge:
            out.append(sec)
    return out


def name_of(symmetry_obj):
    return type(symmetry_obj).__name__
