"""Build library arrays from specs, with blocks supplied by a Session (symbolic or numeric)."""
from . import env  # noqa: F401  (sys.path)
import symmray as sr
from symmray.abelian_core import BlockIndex

STATIC = {
    (False, "Z2"): "Z2Array", (False, "U1"): "U1Array", (False, "Z2Z2"): "Z2Z2Array",
    (False, "U1U1"): "U1U1Array",
    (True, "Z2"): "Z2FermionicArray", (True, "U1"): "U1FermionicArray",
    (True, "Z2Z2"): "Z2Z2FermionicArray", (True, "U1U1"): "U1U1FermionicArray",
}


def array_class(spec):
    f = bool(spec.get("fermionic"))
    if spec.get("generic") or (f, spec["sym"]) not in STATIC:
        return sr.FermionicArray if f else sr.AbelianArray, True
    return getattr(sr, STATIC[(f, spec["sym"])]), False


def make_indices(spec):
    return tuple(BlockIndex(dict(cm), dual=d) for cm, d in spec["indices"])


def block_shape(spec, sector):
    return tuple(dict(cm)[c] for (cm, _), c in zip(spec["indices"], sector))


def build(S, spec, complex_=None):
    """array from spec via the class constructor; entries from S.fill(name:sector)"""
    cls, generic = array_class(spec)
    indices = make_indices(spec)
    nm = spec.get("name", "a")
    blocks = {}
    cx = spec.get("cx")  # mixed arrays: exactly these sectors hold complex entries, the others real
    machine = spec.get("machine", ())  # these sectors hold *concrete* float64 numbers also in symbolic runs (a real machine dtype next to term blocks)
    for sector in spec["present"]:
        cflag = complex_ if cx is None else (sector in cx)
        if sector in machine and S.mode == "sym":
            import random as _random
            r = _random.Random(f"{nm}{_sec(sector)}")
            shp = block_shape(spec, sector)
            blocks[sector] = _np.array([r.randint(-8, 8) / 4.0 or 0.75 for _ in range(int(_np.prod(shp)))], dtype=_np.float64).reshape(shp)
            continue
        blocks[sector] = S.fill(f"{nm}{_sec(sector)}", block_shape(spec, sector), False if sector in machine else cflag)
    kw = {}
    if generic:
        kw["symmetry"] = spec["sym"]
    if spec.get("fermionic"):
        kw["phases"] = {s: -1 for s in spec.get("phases", ())}
        op = spec.get("oddpos")
        if isinstance(op, list):
            # explicit (sorted) sequence of subsumed odd-position labels: [(label, dual), ...]
            from symmray.fermionic_local_operators import FermionicOperator
            op = [FermionicOperator(l, d) for l, d in op]
        kw["oddpos"] = op
    x = cls(indices=indices, charge=spec["charge"], blocks=blocks, **kw)
    for groups in spec.get("prefuse", ()):
        x = x.fuse(*groups)
    for k in spec.get("drop_after_k", ()):
        # fused-then-sparsified: remove the k-th stored sector (sorted order) after fusing
        keys = sorted(x.blocks, key=repr)
        if len(keys) > 1:
            sector = keys[k % len(keys)]
            x.blocks.pop(sector, None)
            if spec.get("fermionic"):
                x.phases.pop(sector, None)
    for sector in spec.get("drop_after", ()):
        x.blocks.pop(sector, None)
        if spec.get("fermionic"):
            x.phases.pop(sector, None)
    return x


def _sec(sector):
    return "<" + ";".join(str(c).replace(" ", "") for c in sector) + ">"


def build_vector(S, name, chargemap, complex_=None):
    """BlockVector with one 1-d block per charge"""
    return sr.BlockVector({c: S.fill(f"{name}<{str(c).replace(' ', '')}>", (d,), complex_) for c, d in chargemap})


# --- dtype names of symbolic blocks -------------------------------------------------------------
# autoray reports "object" for blocks of terms; library code (or a change to it) that keys on the dtype *name*
# would then take a path no numpy user takes.  Report the modelled machine dtype instead: "complex128" if any entry
# is a complex term, "float64" otherwise.  (The unchanged library reads the name only in __repr__.)
import autoray as _ar
import numpy as _np
from .zt import Z as _Z

_orig_get_dtype_name = _ar.get_dtype_name


def _get_dtype_name(x):
    if isinstance(x, _np.ndarray) and x.dtype == object:
        cx = False
        seen = False
        for e in x.reshape(-1):
            if isinstance(e, _Z):
                seen = True
                if e.im is not None:
                    cx = True
                    break
        if seen:
            return "complex128" if cx else "float64"
    elif isinstance(x, _Z):
        return "complex128" if x.im is not None else "float64"
    return _orig_get_dtype_name(x)


_ar.get_dtype_name = _get_dtype_name
try:
    import autoray.autoray as _ara
    _ara.get_dtype_name = _get_dtype_name
except Exception:
    pass
