"""A *case* is (body, spec).  The same body runs in two modes:

* symbolic: block entries are z3 terms (vlib.zt.Z) inside numpy object arrays; equalities
  between library results and independent references are collected as obligations and decided
  by z3 under the path condition + stub contracts (unsat of the negation = holds for all values);
* numeric : block entries are float64/complex128 numpy arrays with given values; the same
  obligations are evaluated with a tolerance.  Used (a) to *replay* a solver model against the
  real code with ordinary numpy blocks before anything is reported, and (b) to validate the term
  back-end (symbolic result evaluated at random values == numeric run at those values).
"""

import random
import re
import time
import traceback

import numpy as np
import z3

from . import zt
from .zt import Z, HarnessError

TOL = 1e-9


class Violation(Exception):
    """raised inside a body for a structural (data-independent) violation"""

    def __init__(self, name, detail=""):
        super().__init__(f"{name}: {detail}")
        self.name, self.detail = name, detail


class Session:
    def __init__(self, mode, values=None, complex_=False, rng=None):
        assert mode in ("sym", "num")
        self.mode = mode
        self.values = values if values is not None else {}
        self.complex_ = complex_
        self.rng = rng or random.Random(0)
        self.any_complex = False
        self.tol = TOL  # (numeric runs in single precision set a wider one)
        self.obl = []  # sym: (name, formula) ; num: (name, ok, lhs, rhs)
        self.canaries = []
        self.structural = []  # (name, detail) structural violations
        self.varnames = []
        self.lhs_terms = {}  # name -> lhs (for back-end validation)
        self.notes = []

    # ---- inputs
    def _value(self, name):
        if name in self.values:
            return self.values[name]
        v = self.rng.uniform(-2, 2)
        self.values[name] = v
        return v

    def scalar(self, name, complex_=None):
        cx = self.complex_ if complex_ is None else complex_
        if cx:
            self.any_complex = True
        if self.mode == "sym":
            self.varnames.extend([name + ".re", name + ".im"] if cx else [name])
            return zt.var(name, cx)
        if cx:
            return complex(self._value(name + ".re"), self._value(name + ".im"))
        return self._value(name)

    def fill(self, name, shape, complex_=None):
        cx = self.complex_ if complex_ is None else complex_
        shape = tuple(int(d) for d in shape)
        if self.mode == "sym":
            a = np.empty(shape, dtype=object)
        else:
            a = np.empty(shape, dtype=np.complex128 if cx else np.float64)
        for idx in np.ndindex(*shape):
            a[idx] = self.scalar(name + "[" + ",".join(map(str, idx)) + "]", cx)
        return a

    # ---- obligations
    def equal(self, name, lhs, rhs):
        if self.mode == "sym":
            self.obl.append((name, zt.eq_formula(lhs, rhs)))
            self.lhs_terms[name] = lhs
        else:
            l, r = complex(_tonum(lhs)), complex(_tonum(rhs))
            ok = abs(l - r) <= self.tol * max(1.0, abs(l), abs(r))
            self.obl.append((name, ok, l, r))
            self.lhs_terms[name] = l

    def holds(self, name, formula_or_bool):
        """a boolean obligation: z3 formula / ZB (sym) or python bool (num)"""
        f = formula_or_bool
        if isinstance(f, zt.ZB):
            f = f.e
        if self.mode == "sym":
            if isinstance(f, (bool, np.bool_)):
                f = z3.BoolVal(bool(f))
            self.obl.append((name, f))
        else:
            self.obl.append((name, bool(f), None, None))

    def equal_arrays(self, name, A, B):
        A = np.asarray(A, dtype=object) if self.mode == "sym" else np.asarray(A)
        B = np.asarray(B, dtype=object) if self.mode == "sym" else np.asarray(B)
        if A.shape != B.shape:
            raise Violation(name + ":shape", f"{A.shape} vs {B.shape}")
        for idx in np.ndindex(*A.shape):
            self.equal(f"{name}@{idx}", A[idx], B[idx])

    def canary(self, name, lhs, rhs):
        """deliberately wrong obligation built from the same run: must be falsifiable"""
        if self.mode == "sym":
            self.canaries.append((name, zt.eq_formula(lhs, rhs)))

    def require(self, name, ok, detail=""):
        """structural (data-independent on this path) requirement"""
        if not ok:
            raise Violation(name, detail)

    def note(self, s):
        self.notes.append(s)

    def dtype(self):
        if self.mode == "sym":
            return object
        return np.complex128 if (self.complex_ or self.any_complex) else np.float64


def _tonum(v):
    if isinstance(v, np.ndarray):
        return v.reshape(-1)[0]
    return v


# ------------------------------------------------------------------------------------------


class CaseResult:
    def __init__(self):
        self.paths = 0
        self.obligations = 0
        self.discharged = 0
        self.inconclusive = 0
        self.canaries = 0
        self.canaries_ok = 0
        self.queries = 0
        self.solver_s = 0.0
        self.violations = []  # dicts
        self.harness_errors = []
        self.cast_traps = 0
        self.validated = 0
        self.complete = True
        self.sample = None
        self.nontrivial = False
        self.notes = {}
        self.timeouts = []

    def to_dict(self):
        return self.__dict__


def _model_values(model, names):
    vals = {}
    for n in names:
        v = model.eval(z3.Real(n), model_completion=True)
        try:
            vals[n] = v.numerator_as_long() / v.denominator_as_long()
        except Exception:
            try:
                vals[n] = float(v.approx(20).as_fraction())
            except Exception:
                vals[n] = 0.0
    return vals


def _bounded_model(solver, neg, names, box=8):
    """prefer a model with all inputs in [-box, box] so the replay is not decided by rounding"""
    solver.push()
    try:
        solver.add(neg)
        for n in names:
            v = z3.Real(n)
            solver.add(v >= -box, v <= box)
        if solver.check() == z3.sat:
            return solver.model()
    finally:
        solver.pop()
    return None


class CaseTimeout(BaseException):
    pass


def _on_alarm(*a):
    raise CaseTimeout()


def run_case(body, spec, complex_=False, validate=False, max_paths=2000, seed=0,
             query_timeout_ms=20000, want_sample=False, wall_limit=90):
    """run_case_inner under a wall-clock limit: a case that exceeds it is *inconclusive*"""
    import signal
    old = signal.signal(signal.SIGALRM, _on_alarm)
    signal.setitimer(signal.ITIMER_REAL, wall_limit, 10)  # repeats: a time-out swallowed by a ctypes callback fires again
    try:
        return run_case_inner(body, spec, complex_, validate, max_paths, seed, query_timeout_ms, want_sample)
    except Exception as e:  # a failure of the machinery itself: harness error for this case, never a crash of the run
        zt._CTL[0] = None
        res = CaseResult()
        if "CaseTimeout" in f"{type(e).__name__}: {e}":
            # the alarm fired inside a ctypes callback of z3, which re-raises it wrapped (ctypes.ArgumentError): still a time-out
            res.inconclusive = 1
            res.complete = False
            res.notes["case-timeout"] = 1
            res.timeouts = [_short(spec)[:300]]
            return res
        res.harness_errors.append(f"machinery exception {type(e).__name__}: {e} on {_short(spec)[:300]}")
        return res
    except CaseTimeout:
        zt._CTL[0] = None
        res = CaseResult()
        res.inconclusive = 1
        res.complete = False
        res.notes["case-timeout"] = 1
        res.timeouts = [_short(spec)[:300]]
        return res
    finally:
        signal.setitimer(signal.ITIMER_REAL, 0)
        signal.signal(signal.SIGALRM, old)


def run_case_inner(body, spec, complex_=False, validate=False, max_paths=2000, seed=0,
                   query_timeout_ms=20000, want_sample=False):
    """Symbolically execute body(S, spec) on every feasible path, decide the obligations,
    replay any counterexample numerically.  Returns CaseResult."""
    res = CaseResult()
    sessions = []

    def wrapped():
        S = Session("sym", complex_=complex_)
        sessions.append(S)
        try:
            body(S, spec)
        except Violation as v:
            S.structural.append((v.name, v.detail))
        return S

    t0 = time.time()
    paths, complete = zt.run_paths(wrapped, max_paths=max_paths, query_timeout_ms=query_timeout_ms)
    res.complete = complete
    if not complete:
        res.inconclusive += 1
    for p in paths:
        res.paths += 1
        c = p.ctl
        res.queries += c.nq
        res.cast_traps += len(c.cast_traps)
        if p.error is not None:
            # the body did not catch it: the library (or harness) raised where a value is required
            e = p.error
            if isinstance(e, HarnessError):
                res.harness_errors.append(f"{type(e).__name__}: {e}")
                continue
            tb = "".join(traceback.format_exception(type(e), e, e.__traceback__)[-3:])
            S = sessions[res.paths - 1] if res.paths - 1 < len(sessions) else None
            _replay_and_record(res, body, spec, complex_, c, S, kind="raised",
                               name=f"raised:{type(e).__name__}", detail=f"{e}\n{tb}")
            continue
        S = p.value
        S.obl.extend(c.obligations)  # obligations stated by stubs (e.g. Hermitian argument of eigh)
        # path feasibility / non-vacuity of assumptions
        # vacuity: unsat assumptions+path condition would prove anything.  (short budget: with stub contracts the
        # witness search is non-linear; 'unknown' is not vacuity — the contracts are validated against LAPACK numerically)
        if c.assumptions:
            # assumptions are definitions of fresh quotients/roots and LAPACK contracts: satisfiable by construction
            # (every numeric input has a LAPACK output satisfying the contract - validated numerically by
            # vlib.stubs.validate_contracts); the branch conditions alone are checked for feasibility
            feas = c.light.check()
        else:
            feas = c.solver.check()
        res.queries += 1
        if feas == z3.unsat:
            if getattr(c, "unknown", 0):
                # entered through a branch whose feasibility query had timed out: the path does not exist after all
                res.notes["infeasible-path-after-undecided-branch"] = res.notes.get("infeasible-path-after-undecided-branch", 0) + 1
                continue
            res.harness_errors.append("vacuous path: assumptions+path condition unsatisfiable")
            continue
        if S.structural:
            _replay_structural(res, body, spec, complex_, c, S)
            if not S.obl:
                continue
        if S.obl:
            res.nontrivial = True
        res.obligations += len(S.obl)
        if getattr(res, "_falsified", False):
            continue  # the case is already falsified on the real code: no need to search further paths
        if S.obl:
            goal = z3.And(*[f for _, f in S.obl]) if len(S.obl) > 1 else S.obl[0][1]
            r = None
            if c.assumptions:
                # with non-linear stub contracts: first decide the linear abstraction (monomials as atoms)
                r = _check_linear(c, goal)
                res.queries += 1
            if r is not None and r != z3.unsat and not getattr(res, "_num_tried", False):
                # the abstraction did not prove it: before a (possibly very long) non-linear search for a model, try to
                # falsify on the real code with ordinary numpy blocks and random data - a failing run *is* the replayed violation
                res._num_tried = True
                names_ = sorted(set(S.varnames))
                rnd = random.Random(seed * 31 + 7)
                # generic data twice, then degenerate data (rank-deficient blocks are where decided-zero pivots live):
                # all zero, first column of every block zero, all ones (rank one)
                tries = [{n: rnd.uniform(-2, 2) for n in names_}, {n: rnd.uniform(-2, 2) for n in names_},
                         {n: 0.0 for n in names_},
                         {n: (0.0 if re.search(r",0\](\.re|\.im)?$|\[0\](\.re|\.im)?$", n) else rnd.uniform(-2, 2)) for n in names_},
                         {n: (0.0 if n.endswith(".im") else 1.0) for n in names_}]
                if any(t_ and t_.startswith("input:") for t_, _ in c.assumptions) or not any(t_ and "contract" in t_ for t_, _ in c.assumptions):
                    tries = tries[:2]  # degenerate data would violate stated input assumptions / is only meant for LAPACK pivots
                for t, vals in enumerate(tries):
                    failed, structural, err, Sn = replay_numeric(body, spec, complex_, vals, seed=seed * 31 + t)
                    if failed or structural or err is not None:
                        nm = failed[0] if failed else (structural[0][0] if structural else f"raised:{type(err).__name__}")
                        res.violations.append({"body": getattr(body, "__name__", str(body)), "kind": "value", "name": nm,
                                               "detail": f"not provable from the stub contracts (linear abstraction: {r}); random concrete data falsifies it on the real code; also failing: {failed[1:6]}",
                                               "spec": spec, "values": dict(Sn.values), "complex": complex_, "replay_failed": failed[:10],
                                               "replay_structural": [list(x) for x in structural[:5]],
                                               "replay_error": None if err is None else f"{type(err).__name__}: {err}", "reproduced": True})
                        r = "falsified"
                        res._falsified = True
                        break
            if r == "falsified":
                continue
            if r is not None and r != z3.unsat and any(t and "contract" in t for t, _ in c.assumptions):
                # under LAPACK contracts nlsat neither terminates reliably nor honours its time-out: obligations the
                # abstraction cannot prove one by one are reported inconclusive (the numeric falsification above found nothing)
                for name, f in S.obl:
                    r1 = _check_linear(c, f)
                    res.queries += 1
                    if r1 == z3.unsat:
                        res.discharged += 1
                    else:
                        res.inconclusive += 1
                        res.notes["inconclusive:" + name.split("@")[0].split("[")[0][:40]] = res.notes.get("inconclusive:" + name.split("@")[0].split("[")[0][:40], 0) + 1
                continue
            witness = None
            if r != z3.unsat and not c.assumptions:
                # a polynomial identity that did not normalise to zero: before asking z3 for a model of its negation (its non-linear core can
                # loop on such searches without honouring the time-out), evaluate at a few random rational points satisfying the path condition;
                # a point where the obligation evaluates to false is a concrete witness (replayed on the real code like any model)
                witness = _random_witness(c, S, goal, seed)
                if witness is not None:
                    r = z3.sat
                    res.notes["witness-by-evaluation"] = res.notes.get("witness-by-evaluation", 0) + 1
            if r != z3.unsat and witness is None:
                r = c.solver.check(z3.Not(goal))
                res.queries += 1
            if r == z3.unsat:
                res.discharged += len(S.obl)
            elif r == z3.unknown:
                # try one by one
                for name, f in S.obl:
                    r1 = _check_linear(c, f) if c.assumptions else None
                    if r1 != z3.unsat:
                        r1 = c.solver.check(z3.Not(f))
                    res.queries += 1
                    if r1 == z3.unsat:
                        res.discharged += 1
                    elif r1 == z3.sat:
                        _counterexample(res, body, spec, complex_, c, S, name, f)
                    else:
                        res.inconclusive += 1
            else:
                m = witness if witness is not None else c.solver.model()
                bad = [(n, f) for n, f in S.obl if z3.is_false(m.eval(f, model_completion=True))]
                if not bad:
                    bad = S.obl[:1]
                res.discharged += len(S.obl) - len(bad)
                # report the first failing obligation (one replay per path keeps runs short)
                name, f = bad[0]
                _counterexample(res, body, spec, complex_, c, S, name, f, also=[n for n, _ in bad[1:6]], model=m)
        for name, f in S.canaries:
            res.canaries += 1
            r = (c.light if c.assumptions else c.solver).check(z3.Not(f))
            res.queries += 1
            if r == z3.sat:
                res.canaries_ok += 1
            elif r == z3.unsat:
                res.harness_errors.append(f"canary {name} was proved: the harness is vacuous on this path")
            else:
                res.notes["canary-unknown"] = res.notes.get("canary-unknown", 0) + 1
        if validate and S.lhs_terms and not res.violations:
            _validate_backend(res, body, spec, complex_, c, S, seed)
        if want_sample and res.sample is None and S.obl:
            n, f = S.obl[len(S.obl) // 2]
            res.sample = {"spec": _short(spec), "obligation": n, "formula": str(z3.simplify(f))[:300],
                          "n_obligations_on_path": len(S.obl), "decisions": len(p.decisions)}
    for S_ in sessions:
        for n in S_.notes:
            res.notes[n] = res.notes.get(n, 0) + 1
    res.solver_s = time.time() - t0
    return res


class _PointModel:
    """a rational point standing in for a z3 model (evaluation by substitution)"""

    def __init__(self, sub):
        self.sub = sub

    def eval(self, e, model_completion=True):
        return z3.simplify(z3.substitute(e, *self.sub)) if self.sub else z3.simplify(e)


def _random_witness(c, S, goal, seed, tries=3):
    names = sorted(set(S.varnames))
    if not names or z3.is_true(z3.simplify(goal)):
        return None
    rng = random.Random(seed * 977 + len(names))
    for t in range(tries):
        sub = [(z3.Real(n), z3.RealVal(f"{rng.choice([k for k in range(-12, 13) if k])}/4")) for n in names]
        pm = _PointModel(sub)
        try:
            if not all(z3.is_true(pm.eval(f)) for f in c.path):
                continue
            if z3.is_false(pm.eval(goal)):
                return pm
        except z3.Z3Exception:
            return None
    return None


def _check_linear(c, goal):
    L = getattr(c, "_lin", None)
    if L is None:
        sq = {v[0].get_id(): v[1] for k, v in c.memo.items() if isinstance(k, tuple) and k and k[0] == "sqrt"}
        L = c._lin = zt.Linearizer(sq)
        c._lin_solver = z3.Solver()
        c._lin_solver.set("timeout", 20000)
        # value propagation: a branch condition `x == numeral` (e.g. a diagonal entry decided to be zero) must reach the
        # monomials that contain x before they are turned into opaque atoms
        subs = []
        for f in c.path:
            g = z3.simplify(f)
            if z3.is_eq(g):
                a, b = g.arg(0), g.arg(1)
                if z3.is_rational_value(a) and z3.is_const(b) and not z3.is_rational_value(b):
                    subs.append((b, a))
                elif z3.is_rational_value(b) and z3.is_const(a) and not z3.is_rational_value(a):
                    subs.append((a, b))
        c._lin_subs = subs

        def prep(f):
            if subs:
                f = z3.substitute(f, *subs)
            return L.lin(z3.simplify(f, som=True))

        c._lin_prep = prep
        for _, f in c.assumptions:
            c._lin_solver.add(prep(f))
        for f in c.path:
            c._lin_solver.add(prep(f))
    return c._lin_solver.check(z3.Not(c._lin_prep(goal)))


def _short(spec):
    s = repr(spec)
    return s if len(s) < 600 else s[:600] + "..."


def _counterexample(res, body, spec, complex_, c, S, name, f, also=(), model=None):
    names = sorted(set(S.varnames))
    if model is not None:
        # the model of the deciding query itself; a bounded one is searched only if it does not replay
        vals = _model_values(model, names)
        if max([abs(v) for v in vals.values()] or [0]) < 1e6:
            failed, structural, err, Sn = replay_numeric(body, spec, complex_, vals)
            if failed or structural or err is not None:
                _replay_and_record(res, body, spec, complex_, c, S, kind="value", name=name,
                                   detail=f"solver model falsifies {name}; also failing: {list(also)}", values=vals)
                return
    m = _bounded_model(c.solver, z3.Not(f), names)
    if m is None:
        c.solver.push()
        c.solver.add(z3.Not(f))
        if c.solver.check() == z3.sat:
            m = c.solver.model()
        c.solver.pop()
    if m is None:
        res.inconclusive += 1
        return
    vals = _model_values(m, names)
    _replay_and_record(res, body, spec, complex_, c, S, kind="value", name=name,
                       detail=f"solver model falsifies {name}; also failing: {list(also)}", values=vals)


def replay_numeric(body, spec, complex_, values, seed=0):
    """run the body with ordinary numpy blocks; -> (failed_names, structural, error, session)"""
    S = Session("num", values=dict(values), complex_=complex_, rng=random.Random(seed))
    err = None
    try:
        body(S, spec)
    except Violation as v:
        S.structural.append((v.name, v.detail))
    except Exception as e:
        err = e
    failed = [o[0] for o in S.obl if not o[1]]
    return failed, S.structural, err, S


def _replay_and_record(res, body, spec, complex_, c, S, kind, name, detail, values=None):
    no_model = False
    if values is None:
        # any model of the path condition will do (structure does not depend on data on this path)
        values = {}
        if S is not None and S.varnames:
            mv = _path_model(c, sorted(set(S.varnames)))
            if mv is not None:
                values = mv
            elif c.path or c.assumptions:
                no_model = True
    failed, structural, err, Sn = replay_numeric(body, spec, complex_, values)
    if kind in ("raised", "structural") and not (failed or structural or err is not None):
        # an unconstrained model is typically all zeros, which hides value errors: also try generic data
        for t in range(2):
            failed, structural, err, Sn = replay_numeric(body, spec, complex_, {}, seed=1000 + t)
            if failed or structural or err is not None:
                values = dict(Sn.values)
                break
    if kind == "raised" and "cast trap" in str(detail) and not (failed or structural or err is not None):
        # a symbolic entry was written into a machine-typed array (e.g. zeros created without the data's dtype).
        # With float64 data numpy does this silently and correctly; with complex data the imaginary part is lost:
        # replay with complex blocks decides whether it is observable.
        failed, structural, err, Sn = replay_numeric(body, spec, True, {})
        if failed or structural or err is not None:
            complex_ = True
            values = dict(Sn.values)
            name = name + ":complex-replay"
        else:
            # the path ended in the term layer without a verdict on machine numbers: nothing was decided for this case
            res.notes["cast-trap-not-observable-in-replay"] = res.notes.get("cast-trap-not-observable-in-replay", 0) + 1
            res.inconclusive += 1
            return
    reproduced = False
    if kind == "value":
        reproduced = bool(failed) or bool(structural) or err is not None
    elif kind == "structural":
        reproduced = any(n == name for n, _ in structural) or bool(structural) or err is not None
    elif kind == "raised":
        # (an exception inside the term layer may correspond to a wrong *value* on machine numbers)
        reproduced = err is not None or bool(structural) or bool(failed)
    rec = {
        "body": getattr(body, "__name__", str(body)),
        "kind": kind,
        "name": name,
        "detail": str(detail)[:1500],
        "spec": spec,
        "values": values,
        "complex": complex_,
        "replay_failed": failed[:10],
        "replay_structural": [list(x) for x in structural[:5]],
        "replay_error": None if err is None else f"{type(err).__name__}: {err}",
        "reproduced": reproduced,
    }
    if reproduced:
        res.violations.append(rec)
    elif getattr(c, "unknown", 0):
        # a branch on this path was taken although its feasibility query timed out (over-approximation): the path may not exist
        res.inconclusive += 1
        res.notes["finding-on-path-of-undecided-feasibility"] = res.notes.get("finding-on-path-of-undecided-feasibility", 0) + 1
    elif no_model:
        res.inconclusive += 1
        res.notes["finding-without-concrete-model"] = res.notes.get("finding-without-concrete-model", 0) + 1
    elif kind != "value" and any(t_ and "contract" in t_ for t_, _ in c.assumptions):
        res.inconclusive += 1
        res.notes["finding-under-contracts-did-not-replay"] = res.notes.get("finding-under-contracts-did-not-replay", 0) + 1
    else:
        res.harness_errors.append(f"non-reproducing {kind} counterexample {name} on {_short(spec)}")


def _path_model(c, names):
    """values of the input variables on this path, or None when the solver cannot produce them (unknown / time-out)"""
    try:
        if c.solver.check() != z3.sat:
            return None
        m = _bounded_model(c.solver, z3.BoolVal(True), names)
        if m is None:
            if c.solver.check() != z3.sat:
                return None
            m = c.solver.model()
        return _model_values(m, names)
    except z3.Z3Exception:
        return None


def _replay_structural(res, body, spec, complex_, c, S):
    """one numeric replay for all structural violations of a path"""
    values = {}
    have_model = not (c.path or c.assumptions)  # (a path without conditions needs no model: any data follows it)
    if S.varnames:
        mv = _path_model(c, sorted(set(S.varnames)))
        if mv is not None:
            values, have_model = mv, True
    failed, structural, err, Sn = replay_numeric(body, spec, complex_, values)
    if not (failed or structural or err is not None):
        for t in range(2):  # an unconstrained model is typically all zeros: also try generic data
            failed, structural, err, Sn = replay_numeric(body, spec, complex_, {}, seed=2000 + t)
            if failed or structural or err is not None:
                values = dict(Sn.values)
                break
    got = {n for n, _ in structural}
    for name, detail in S.structural:
        rec = {"body": getattr(body, "__name__", str(body)), "kind": "structural", "name": name, "detail": str(detail)[:1500],
               "spec": spec, "values": values, "complex": complex_, "replay_failed": failed[:10],
               "replay_structural": [list(x) for x in structural[:5]],
               "replay_error": None if err is None else f"{type(err).__name__}: {err}",
               "reproduced": name in got or err is not None}
        if rec["reproduced"]:
            res.violations.append(rec)
        elif getattr(c, "unknown", 0):
            # (a branch on this path was taken although its feasibility query timed out: the path may not exist)
            res.inconclusive += 1
            res.notes["finding-on-path-of-undecided-feasibility"] = res.notes.get("finding-on-path-of-undecided-feasibility", 0) + 1
        elif not have_model:
            # the solver produced no concrete data for this path (unknown under the non-linear contracts): the finding cannot be replayed,
            # so it is neither reported nor dismissed
            res.inconclusive += 1
            res.notes["structural-finding-without-concrete-model"] = res.notes.get("structural-finding-without-concrete-model", 0) + 1
        elif any(t_ and "contract" in t_ for t_, _ in c.assumptions):
            # under LAPACK contracts the model fixes the inputs only; the factors LAPACK then computes are the model's up to the gauge the
            # contract leaves open and up to rounding at the (typically boundary) values the solver picks: a finding that does not replay
            # there is not reported, and not dismissed either
            res.inconclusive += 1
            res.notes["finding-under-contracts-did-not-replay"] = res.notes.get("finding-under-contracts-did-not-replay", 0) + 1
        else:
            res.harness_errors.append(f"non-reproducing structural counterexample {name} on {_short(spec)}")


def _validate_backend(res, body, spec, complex_, c, S, seed):
    """translator check: symbolic lhs evaluated at random values == numeric run at those values"""
    rng = random.Random(seed * 7919 + 13)
    names = sorted(set(S.varnames))
    if c.assumptions or c.trace:
        return  # paths with stubs/decisions are validated separately (values must satisfy them)
    vals = {n: rng.uniform(-2, 2) for n in names}
    failed, structural, err, Sn = replay_numeric(body, spec, complex_, vals)
    if err is not None or structural or failed:
        res.harness_errors.append(f"backend validation: numeric run failed {failed[:3]} {structural[:1]} {err!r} on {_short(spec)}")
        return
    sub = [(z3.Real(n), z3.RealVal(repr(vals[n]))) for n in names]
    for name, lhs in S.lhs_terms.items():
        if name not in Sn.lhs_terms:
            res.harness_errors.append(f"backend validation: {name} missing in numeric run")
            return
        re_, im_ = zt.parts(lhs)
        got_re = _rat(z3.simplify(z3.substitute(re_, *sub)))
        got_im = _rat(z3.simplify(z3.substitute(im_, *sub))) if not zt._is_zero(im_) else 0.0
        # exact-arithmetic evaluation of decimal-literal inputs vs float run: values agree closely
        want = complex(Sn.lhs_terms[name])
        if abs(complex(got_re, got_im) - want) > 1e-7 * max(1, abs(want)):
            res.harness_errors.append(
                f"backend validation mismatch {name}: term={got_re}+{got_im}j numpy={want} on {_short(spec)}")
            return
    res.validated += 1


def _rat(e):
    if z3.is_rational_value(e):
        return e.numerator_as_long() / e.denominator_as_long()
    if z3.is_algebraic_value(e):
        return float(e.approx(20).as_fraction())
    raise HarnessError(f"term did not evaluate to a number: {e}")
