"""Put the tree under analysis first on sys.path (default /repo; VERIF_REPO overrides, used by the
sensitivity self-test on scratch copies).  Import this before symmray."""
import os
import sys

REPO = os.environ.get("VERIF_REPO", "/repo")
if REPO in sys.path:
    sys.path.remove(REPO)
sys.path.insert(0, REPO)
os.environ.pop("SYMMRAY_DEBUG", None)  # library default (off): its check() calls isfinite on blocks

VERIF = os.path.dirname(os.path.dirname(os.path.abspath(__file__)))


def symmray():
    import symmray as sr

    got = os.path.realpath(os.path.dirname(os.path.dirname(sr.__file__)))
    if got != os.path.realpath(REPO):
        raise RuntimeError(f"symmray imported from {got}, expected {REPO}")
    return sr


def scratch(*parts):
    """run-time scratch directory under the checks' own tree (generated harnesses, reachability twins)"""
    d = os.path.join(VERIF, ".scratch", *parts)
    os.makedirs(d, exist_ok=True)
    return d
