"""Replay a recorded counterexample against the real code with ordinary numpy blocks."""
import ast
import json

from .session import replay_numeric


def replay_file(mod, pid, path):
    rec = json.load(open(path))
    v = rec["violation"]
    spec = ast.literal_eval(rec["spec_repr"])
    values = ast.literal_eval(rec["values_repr"]) or {}
    body = mod.BODIES[v["body"]]
    failed, structural, err, S = replay_numeric(body, spec, bool(v.get("complex")), values)
    print(f"replay {pid} body={v['body']} spec={rec['spec_repr'][:300]}")
    print(f"  failed obligations: {failed[:10]}")
    print(f"  structural: {structural[:5]}")
    print(f"  error: {err!r}")
    for o in S.obl:
        if not o[1]:
            print(f"  {o[0]}: library={o[2]} reference={o[3]}")
            break
    if failed or structural or err is not None:
        print(f"VIOLATION property={pid} replay={path}")
        return 1
    print("does not reproduce")
    return 0
