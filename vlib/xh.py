"""Engine A: run CrossHair (symbolic execution of the Python source with z3) on contract
functions in /verif/harness/*.py.  One process per condition, 16 at a time.

A contract function is named ``chk_*`` and has a PEP-316 docstring (``pre:`` lines, ``post: _``).
For every contract a *reachability twin* is generated (same body, ``post: False``): CrossHair must
refute the twin, otherwise the harness is vacuous (exit 3).

Classification of CrossHair's report for one condition:
  'Confirmed over all paths'      -> confirmed (all paths explored, all queries decided)
  'error: ... when calling f(..)' -> candidate counterexample; replayed with plain Python
  anything else / timeout         -> inconclusive (never counted as discharged)
"""

import ast
import os
import re
import subprocess
import sys
import tempfile
import time
from concurrent.futures import ThreadPoolExecutor

from . import env

PY = sys.executable


def conditions(path):
    src = open(path).read()
    tree = ast.parse(src)
    out = []
    for node in tree.body:
        if isinstance(node, ast.FunctionDef) and node.name.startswith("chk_"):
            out.append((node.name, node.lineno))
    return out


def _env():
    e = dict(os.environ)
    e["PYTHONPATH"] = os.pathsep.join([env.REPO, env.VERIF])
    e["PYTHONHASHSEED"] = "0"
    e.pop("SYMMRAY_DEBUG", None)
    return e


def _run_one(path, name, lineno, timeout, extra=()):
    t0 = time.time()
    cmd = [PY, "-m", "crosshair", "check", "--report_all", "--per_condition_timeout", str(timeout),
           "--per_path_timeout", str(max(10, timeout // 3)), *extra, f"{path}:{lineno + 1}"]
    try:
        p = subprocess.run(cmd, capture_output=True, text=True, timeout=timeout * 1.5 + 60, env=_env(), stdin=subprocess.DEVNULL,
                           cwd=env.VERIF)
        out = p.stdout + p.stderr
    except subprocess.TimeoutExpired as e:
        out = "TIMEOUT " + (e.stdout or "") if isinstance(e.stdout, str) else "TIMEOUT"
    return out, time.time() - t0


_CALL = re.compile(r"when calling (\w+)\((.*?)\)(?:\s*\(which returns.*)?\s*$")


def classify(out):
    lines = [l for l in out.splitlines() if l.strip()]
    for l in lines:
        if "Confirmed over all paths" in l:
            return "confirmed", l
    for l in lines:
        if ": error:" in l:
            return "counterexample", l
    for l in lines:
        if "Unable to meet precondition" in l:
            return "inconclusive", l
    return "inconclusive", (lines[-1] if lines else "no output")


def replay_call(path, line):
    """re-execute the reported call with plain Python against the tree; True if it really fails"""
    m = _CALL.search(line)
    if not m:
        return None, "could not parse counterexample"
    fn, args = m.group(1), m.group(2)
    code = (
        "import sys, importlib.util\n"
        f"spec = importlib.util.spec_from_file_location('h', {path!r}); h = importlib.util.module_from_spec(spec); spec.loader.exec_module(h)\n"
        f"r = h.{fn}({args})\n"
        "print('RESULT', r)\n"
        "sys.exit(0 if r else 7)\n"
    )
    p = subprocess.run([PY, "-c", code], capture_output=True, text=True, env=_env(), cwd=env.VERIF, timeout=300, stdin=subprocess.DEVNULL)
    if p.returncode == 7:
        return True, f"{fn}({args}) returned falsy"
    if p.returncode != 0:
        # raised: is it a declared exception? the harness bodies catch what they allow, so a raise is a failure
        return True, f"{fn}({args}) raised: {p.stderr.strip().splitlines()[-1] if p.stderr.strip() else ''}"
    return False, f"{fn}({args}) passes under plain Python"


def make_twin(path):
    """copy of the harness with every `post: _` replaced by `post: False`"""
    src = open(path).read()
    twin = re.sub(r"post:\s*_\s*$", "post: False", src, flags=re.M)
    d = tempfile.mkdtemp(prefix="xh_twin_", dir=env.scratch())
    tp = os.path.join(d, os.path.basename(path))
    open(tp, "w").write(twin)
    return tp


def run_all(path, timeout=60, jobs=16, only=None, twins=True):
    """-> (results, harness_errors); result = dict(cond,status,detail,seconds,replayed)"""
    conds = conditions(path)
    if only:
        conds = [c for c in conds if only(c[0])]
    results, herrs = [], []
    twin_path = make_twin(path) if twins else None
    jobs_list = [("main", path, n, l) for n, l in conds]
    if twins:
        jobs_list += [("twin", twin_path, n, l) for n, l in conds]

    def work(job):
        kind, p, n, l = job
        out, secs = _run_one(p, n, l, timeout if kind == "main" else max(20, timeout // 3))
        return kind, n, out, secs

    with ThreadPoolExecutor(max_workers=jobs) as ex:
        outs = list(ex.map(work, jobs_list))
    for kind, n, out, secs in outs:
        status, detail = classify(out)
        if kind == "twin":
            if status != "counterexample":
                herrs.append(f"vacuity: twin of {n} was not refuted ({status}: {detail[:200]})")
            continue
        rec = dict(cond=f"{os.path.basename(path)}:{n}", status=status, detail=detail[:400], seconds=secs,
                   replayed=None, paths_hint=2)
        if status == "counterexample":
            ok, msg = replay_call(path, detail)
            rec["replayed"] = ok
            rec["detail"] = (detail + " || " + msg)[:600]
            if ok is None or ok is False:
                rec["status"] = "inconclusive" if ok is None else "nonreproducing"
                if ok is False:
                    herrs.append(f"non-reproducing CrossHair counterexample for {n}: {msg}")
        results.append(rec)
    if twin_path:
        try:
            os.remove(twin_path)
            os.rmdir(os.path.dirname(twin_path))
        except OSError:
            pass
    return results, herrs


def violations_from(results, pid):
    out = []
    for r in results:
        if r["status"] == "counterexample" and r["replayed"]:
            out.append({"body": "crosshair", "kind": "crosshair", "name": r["cond"], "detail": r["detail"],
                        "spec": r["cond"], "values": None, "reproduced": True,
                        "tags": {"cond": r["cond"].split(":")[-1]}})
    return out
