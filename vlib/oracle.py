"""Independent oracles: dense placement, charge-addressed coordinates, validity audit.

Only public attributes of library objects are read (indices[i].chargemap/dual/subinfo, blocks,
charge, phases, oddpos, symmetry).  Nothing here calls the library's own check()/to_dense()."""

import itertools

import numpy as np

from . import sym as gs


def symname(x):
    return type(x.symmetry).__name__


def index_layout(ix):
    """ascending-charge layout of one index: [(charge, start, size)], total"""
    cm = ix.chargemap
    out = []
    off = 0
    for c in sorted(cm):
        out.append((c, off, cm[c]))
        off += cm[c]
    return out, off


def is_fermionic(x):
    return bool(getattr(x, "fermionic", False))


def block_sign(x, sector):
    if is_fermionic(x):
        return x.phases.get(sector, 1)
    return 1


def coords(x, apply_phases=True):
    """{((charge, offset), ...per axis): entry} for every stored entry (signs applied)"""
    out = {}
    for sector, blk in x.blocks.items():
        s = block_sign(x, sector) if apply_phases else 1
        blk = np.asarray(blk)
        for off in np.ndindex(*blk.shape):
            v = blk[off]
            out[tuple(zip(sector, off))] = (-v if s == -1 else v) if s in (1, -1) else v * s
    return out


def dense_of(x, zero=0, dtype=object):
    """dense array with blocks placed at ascending-charge offsets; absent blocks literal zero.
    -> (D, layouts) where layouts[i] = [(charge, start, size), ...]"""
    lays = [index_layout(ix) for ix in x.indices]
    shape = tuple(t for _, t in lays)
    D = np.empty(shape, dtype=dtype)
    D[...] = zero
    for sector, blk in x.blocks.items():
        s = block_sign(x, sector)
        sl = []
        for (lay, _), c in zip(lays, sector):
            ent = [e for e in lay if e[0] == c]
            if not ent:
                raise ValueError(f"sector {sector} charge {c} not in index table")
            _, st, sz = ent[0]
            sl.append(slice(st, st + sz))
        b = np.asarray(blk, dtype=dtype)
        D[tuple(sl)] = b if s == 1 else -b
    return D, [l for l, _ in lays]


def address(layouts, pos):
    """dense position -> charge address ((charge, offset), ...)"""
    out = []
    for lay, p in zip(layouts, pos):
        for c, st, sz in lay:
            if st <= p < st + sz:
                out.append((c, p - st))
                break
        else:
            raise IndexError(pos)
    return tuple(out)


def dense_coords(D, layouts):
    """charge-addressed view of a dense reference array"""
    D = np.asarray(D, dtype=object) if not isinstance(D, np.ndarray) else D
    return {address(layouts, pos): D[pos] for pos in np.ndindex(*D.shape)}


# ------------------------------------------------------------------------------------------
# validity audit (C01), written from the property statement


def audit_index(sym, ix, path="ix"):
    probs = []
    cm = ix.chargemap
    keys = list(cm)
    if keys != sorted(keys) or len(set(keys)) != len(keys):
        probs.append(f"{path}: chargemap keys not strictly ascending: {keys}")
    for c, d in cm.items():
        if not isinstance(d, (int, np.integer)) or isinstance(d, (bool, np.bool_)) or d <= 0:
            probs.append(f"{path}: size of charge {c!r} is {d!r}")
        if not _valid_charge(sym, c):
            probs.append(f"{path}: invalid charge {c!r} for {sym}")
    if not isinstance(ix.dual, (bool, np.bool_)):
        probs.append(f"{path}: dual is {ix.dual!r}")
    si = ix.subinfo
    if si is not None:
        subs = si.indices
        ext = si.extents
        for k, sub in enumerate(subs):
            probs += audit_index(sym, sub, f"{path}.sub{k}")
        if set(ext) != set(cm):
            probs.append(f"{path}: sub-index table charges {sorted(ext)} != chargemap charges {sorted(cm)}")
        for c, table in ext.items():
            tot = 0
            if len(set(table)) != len(list(table)):
                probs.append(f"{path}: repeated sub-sector under {c!r}")
            for subsec, sz in table.items():
                if len(subsec) != len(subs):
                    probs.append(f"{path}: sub-sector {subsec} has wrong length")
                    continue
                want = 1
                ok = True
                for sc, sub in zip(subsec, subs):
                    if sc not in sub.chargemap:
                        probs.append(f"{path}: sub-charge {sc!r} of {subsec} not in sub-index")
                        ok = False
                    else:
                        want *= sub.chargemap[sc]
                if ok and sz != want:
                    probs.append(f"{path}: extent of {subsec} is {sz}, product of sub-sizes {want}")
                # signed combination relative to the fused direction
                comb = gs.combine(sym, [gs.signed(sym, sc, sub.dual) for sc, sub in zip(subsec, subs)])
                comb = gs.signed(sym, comb, ix.dual)
                if comb != c:
                    probs.append(f"{path}: sub-sector {subsec} combines to {comb!r}, listed under {c!r}")
                tot += sz
            if c in cm and tot != cm[c]:
                probs.append(f"{path}: extents under {c!r} sum to {tot}, chargemap says {cm[c]}")
    return probs


def _valid_charge(sym, c):
    if sym == "Z2":
        return isinstance(c, (int, np.integer)) and not isinstance(c, bool) and c in (0, 1)
    if sym == "Z4":
        return isinstance(c, (int, np.integer)) and not isinstance(c, bool) and c in (0, 1, 2, 3)
    if sym == "U1":
        return isinstance(c, (int, np.integer)) and not isinstance(c, bool)
    if sym == "Z2Z2":
        return isinstance(c, tuple) and len(c) == 2 and all(v in (0, 1) for v in c)
    if sym == "U1U1":
        return isinstance(c, tuple) and len(c) == 2 and all(isinstance(v, (int, np.integer)) for v in c)
    return False


def audit(x):
    """-> list of problems (empty = valid per C01)"""
    probs = []
    sym = symname(x)
    for i, ix in enumerate(x.indices):
        probs += audit_index(sym, ix, f"ix{i}")
    if not _valid_charge(sym, x.charge):
        probs.append(f"invalid total charge {x.charge!r}")
    duals = [ix.dual for ix in x.indices]
    nd = len(x.indices)
    for sector, blk in x.blocks.items():
        if not isinstance(sector, tuple) or len(sector) != nd:
            probs.append(f"sector {sector!r} has wrong rank (ndim {nd})")
            continue
        if any(c not in ix.chargemap for c, ix in zip(sector, x.indices)):
            probs.append(f"sector {sector!r} uses a charge missing from its index table")
            continue
        if gs.sector_charge(sym, sector, duals) != x.charge:
            probs.append(f"sector {sector!r} combines to {gs.sector_charge(sym, sector, duals)!r} != charge {x.charge!r}")
        want = tuple(ix.chargemap[c] for c, ix in zip(sector, x.indices))
        got = tuple(np.shape(blk))
        if got != want:
            probs.append(f"block {sector!r} has shape {got}, indices say {want}")
    if is_fermionic(x):
        for sector, ph in x.phases.items():
            if ph not in (1, -1):
                probs.append(f"pending sign of {sector!r} is {ph!r}")
            if not isinstance(sector, tuple) or len(sector) != nd:
                probs.append(f"pending-sign key {sector!r} has wrong rank")
                continue
            # (an entry may be stale, i.e. name a sector whose block or charge was dropped: the statement
            # only demands charge conservation and a value of +-1)
            if gs.sector_charge(sym, sector, duals) != x.charge:
                probs.append(f"pending-sign key {sector!r} is not charge conserving")
        if len(x.oddpos) % 2 != gs.parity(sym, x.charge):
            probs.append(f"{len(x.oddpos)} odd-position labels but charge parity {gs.parity(sym, x.charge)}")
    return probs


def audit_vector(v):
    probs = []
    for k, blk in v.blocks.items():
        if np.ndim(blk) != 1:
            probs.append(f"vector block {k!r} has ndim {np.ndim(blk)}")
    return probs


# ------------------------------------------------------------------------------------------
# structural equality helpers


def index_sig(ix):
    """deep, hashable description of an index (including sub-index tables)"""
    si = ix.subinfo
    sub = None
    if si is not None:
        sub = (
            tuple(index_sig(s) for s in si.indices),
            tuple((c, tuple(t.items())) for c, t in si.extents.items()),
        )
    return (tuple(ix.chargemap.items()), bool(ix.dual), sub)


def index_sig_unordered(ix):
    """as index_sig but insensitive to dict insertion order of the outer tables"""
    si = ix.subinfo
    sub = None
    if si is not None:
        sub = (
            tuple(index_sig_unordered(s) for s in si.indices),
            tuple(sorted(((c, tuple(t.items())) for c, t in si.extents.items()), key=repr)),
        )
    return (tuple(sorted(ix.chargemap.items(), key=repr)), bool(ix.dual), sub)


def labels_of(x):
    return tuple((op.label, bool(op.dual)) for op in getattr(x, "oddpos", ()))
