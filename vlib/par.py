"""Process-parallel map over cases (fork, 16 workers by default).  Workers are created before the
parent touches z3."""
import multiprocessing as mp
import os

JOBS = int(os.environ.get("VERIF_JOBS", "16"))


def _call(args):
    fn, item = args
    return fn(item)


def pmap(fn, items, jobs=None, chunksize=None):
    items = list(items)
    jobs = jobs or JOBS
    if jobs <= 1 or len(items) <= 1:
        return [fn(it) for it in items]
    ctx = mp.get_context("fork")
    cs = chunksize or max(1, min(64, len(items) // (jobs * 8) or 1))
    with ctx.Pool(jobs) as pool:
        return pool.map(_call, [(fn, it) for it in items], chunksize=cs)


def run_groups(rep, groups, runfn, only=None, jobs=None):
    """run all groups' cases through one pool (pool start-up dominates when groups are small)"""
    names, flat = [], []
    for name, (cases, ex) in groups.items():
        if only and only not in name:
            continue
        names.append((name, len(cases), ex))
        flat.extend(cases)
    results = pmap(runfn, flat, jobs=jobs, chunksize=max(1, min(32, len(flat) // ((jobs or JOBS) * 16) or 1)))
    pos = 0
    for name, n, ex in names:
        rep.add_cases(name, results[pos:pos + n], exhaustive=ex)
        pos += n
