"""Process-parallel map over cases (fork, 16 workers by default).  Workers are created before the
parent touches z3."""
import multiprocessing as mp
import os

JOBS = int(os.environ.get("VERIF_JOBS", "16"))


def _call(args):
    fn, item = args
    return fn(item)


def pmap(fn, items, jobs=None, chunksize=None):
    items = list(items)
    jobs = jobs or JOBS
    if jobs <= 1 or len(items) <= 1:
        return [fn(it) for it in items]
    ctx = mp.get_context("fork")
    cs = chunksize or max(1, min(64, len(items) // (jobs * 8) or 1))
    with ctx.Pool(jobs) as pool:
        return pool.map(_call, [(fn, it) for it in items], chunksize=cs)
