"""Deterministic generators of *every* structure inside a bound (engine B enumerates structure,
the solver quantifies over data).  Specs are plain python data (picklable, repr-able)."""

import itertools
import random

from . import sym as gs

UNIVERSE = {
    "Z2": [0, 1],
    "Z4": [0, 1, 2, 3],
    "U1": [-1, 0, 1],
    "Z2Z2": [(0, 0), (0, 1), (1, 0), (1, 1)],
    "U1U1": [(0, 0), (0, 1), (1, 0), (1, 1)],
}
UNIVERSE_THOROUGH = dict(UNIVERSE, U1=[-1, 0, 1, 2], U1U1=[(0, 0), (0, 1), (1, 0), (1, 1), (-1, 0)])


def index_tables(sym, max_charges=2, size_tables=("ones", "graded"), universe=None):
    """every non-empty subset of the universe with <= max_charges charges, under each size table;
    -> list of chargemaps as tuples ((charge, size), ...) ascending"""
    uni = sorted((universe or UNIVERSE)[sym])
    out = []
    seen = set()
    for k in range(1, max_charges + 1):
        for sub in itertools.combinations(uni, k):
            for st in size_tables:
                if st == "ones":
                    cm = tuple((c, 1) for c in sub)
                elif st == "graded":
                    cm = tuple((c, i + 1) for i, c in enumerate(sub))
                elif st == "rgraded":
                    cm = tuple((c, len(sub) - i) for i, c in enumerate(sub))
                elif st == "twos":
                    cm = tuple((c, 2) for c in sub)
                else:
                    raise ValueError(st)
                if cm not in seen:
                    seen.add(cm)
                    out.append(cm)
    return out


def possible_charges(sym, index_specs):
    """every total charge with >= 1 valid sector"""
    duals = [d for _, d in index_specs]
    lists = [[c for c, _ in cm] for cm, _ in index_specs]
    qs = []
    for sec in itertools.product(*lists):
        q = gs.sector_charge(sym, sec, duals)
        if q not in qs:
            qs.append(q)
    return sorted(qs)


def sectors_of(sym, index_specs, charge):
    duals = [d for _, d in index_specs]
    lists = [[c for c, _ in cm] for cm, _ in index_specs]
    return gs.valid_sectors(sym, lists, duals, charge)


def subsets(items, threshold=4, rng=None, nrand=3, allow_empty=False):
    """every non-empty subset when len<=threshold; otherwise all single-missing, all
    single-present and a few seeded ones.  -> (list of tuples, exhaustive)"""
    items = list(items)
    n = len(items)
    lo = 0 if allow_empty else 1
    if n <= threshold:
        out = []
        for k in range(n, lo - 1, -1):
            out.extend(itertools.combinations(items, k))
        return out, True
    out = [tuple(items)]
    out += [tuple(x for j, x in enumerate(items) if j != i) for i in range(n)]
    out += [(x,) for x in items]
    rng = rng or random.Random(0)
    for _ in range(nrand):
        s = tuple(x for x in items if rng.random() < 0.5)
        if s and s not in out:
            out.append(s)
    return out, False


def index_structs(sym, ndim, tables, duals_all=True):
    """all (chargemap, dual) tuples for ndim indices"""
    per = [(cm, d) for cm in tables for d in ((False, True) if duals_all else (False,))]
    return itertools.product(per, repeat=ndim)


def array_specs(sym, ndim, tables, fermionic=False, generic=False, sparsity_threshold=4,
                phases=False, rng=None, labels=("L",), full_only=False, charges="all",
                name="a"):
    """every array structure: indices x charge x sparsity [x pending-sign table]"""
    rng = rng or random.Random(0)
    for ixs in index_structs(sym, ndim, tables):
        ixs = tuple(ixs)
        for q in possible_charges(sym, ixs):
            if charges == "even" and gs.parity(sym, q):
                continue
            secs = sectors_of(sym, ixs, q)
            if full_only:
                pres_list, ex = [tuple(secs)], True
            else:
                pres_list, ex = subsets(secs, sparsity_threshold, rng)
            for pres in pres_list:
                base = dict(sym=sym, generic=generic, fermionic=fermionic, indices=ixs, charge=q,
                            present=tuple(pres), phases=(), oddpos=None, name=name, exhaustive=ex)
                if fermionic and gs.parity(sym, q):
                    base["oddpos"] = labels[0]
                if fermionic and phases:
                    ph_list, ex2 = subsets(pres, sparsity_threshold, rng, allow_empty=True)
                    for ph in ph_list:
                        yield dict(base, phases=tuple(ph), exhaustive=ex and ex2)
                else:
                    yield base


def conj_index(ixspec):
    cm, d = ixspec
    return (cm, not d)


def perms(n):
    return list(itertools.permutations(range(n)))


def ordered_groupings(ndim, max_groups=2, min_group=1):
    """all lists of disjoint ordered axis groups (each a tuple of distinct axes)"""
    out = []
    axes = list(range(ndim))

    def rec(remaining, groups):
        if groups:
            out.append(tuple(groups))
        if len(groups) >= max_groups:
            return
        for k in range(min_group, len(remaining) + 1):
            for g in itertools.permutations(remaining, k):
                rest = [a for a in remaining if a not in g]
                rec(rest, groups + [tuple(g)])

    rec(axes, [])
    return out


def thin(items, limit, seed):
    """deterministic seeded sub-sample when a family exceeds `limit` -> (items, exhaustive)"""
    items = list(items)
    if limit is None or len(items) <= limit:
        return items, True
    rng = random.Random(seed)
    idx = sorted(rng.sample(range(len(items)), limit))
    return [items[i] for i in idx], False


def pair_structs(sym, na, nb, tables, free_tables, ks=None):
    """contractible pairs: b's contracted legs are conjugates of a's.
    -> list of (a_indices, b_indices, axes_a, axes_b)"""
    out = []
    ix_opts = [(cm, d) for cm in tables for d in (False, True)]
    free_opts = [(cm, d) for cm in free_tables for d in (False, True)]
    for k in (range(0, min(na, nb) + 1) if ks is None else ks):
        if k > min(na, nb):
            continue
        for a_ixs in itertools.product(ix_opts, repeat=na):
            for axa in itertools.permutations(range(na), k):
                for axb in itertools.permutations(range(nb), k):
                    free_pos = [i for i in range(nb) if i not in axb]
                    for b_free in itertools.product(free_opts, repeat=len(free_pos)):
                        b_ixs = [None] * nb
                        for i, j in zip(axa, axb):
                            b_ixs[j] = conj_index(a_ixs[i])
                        for p, ixs in zip(free_pos, b_free):
                            b_ixs[p] = ixs
                        out.append((tuple(a_ixs), tuple(b_ixs), axa, axb))
    return out


def expand_pair(sym, struct, rng, generic=False, fermionic=False, sparsity_threshold=3, max_pairs=6,
                labels=(1, 2), phases=False, max_phase=2):
    """charges x sparsity pairs [x pending-sign tables] for one pair structure -> list of (A, B, axes)"""
    a_ixs, b_ixs, axa, axb = struct
    cases = []
    for qa in possible_charges(sym, a_ixs):
        sa = sectors_of(sym, a_ixs, qa)
        for qb in possible_charges(sym, b_ixs):
            sb = sectors_of(sym, b_ixs, qb)
            pa, exa = subsets(sa, sparsity_threshold, rng)
            pb, exb = subsets(sb, sparsity_threshold, rng)
            combos = list(itertools.product(pa, pb))
            ex = exa and exb
            if len(combos) > max_pairs:
                rest = combos[1:]
                rng.shuffle(rest)
                combos = combos[:1] + rest[: max_pairs - 1]
                ex = False
            for pra, prb in combos:
                A = dict(sym=sym, generic=generic, fermionic=fermionic, indices=a_ixs, charge=qa, present=tuple(pra),
                         phases=(), oddpos=None, name="a")
                B = dict(sym=sym, generic=generic, fermionic=fermionic, indices=b_ixs, charge=qb, present=tuple(prb),
                         phases=(), oddpos=None, name="b")
                if fermionic:
                    if gs.parity(sym, qa):
                        A["oddpos"] = labels[0]
                    if gs.parity(sym, qb):
                        B["oddpos"] = labels[1]
                    if phases:
                        pha, _ = subsets(pra, 2, rng, allow_empty=True, nrand=1)
                        phb, _ = subsets(prb, 2, rng, allow_empty=True, nrand=1)
                        pp = list(itertools.product(pha, phb))
                        if len(pp) > max_phase:
                            rng.shuffle(pp)
                            pp = pp[:max_phase]
                            ex = False
                        for x, y in pp:
                            cases.append((dict(A, phases=tuple(x)), dict(B, phases=tuple(y)), (axa, axb), ex))
                        continue
                cases.append((A, B, (axa, axb), ex))
    return cases


def std_tables(sym, thorough=False, n_two=3, n_one=2):
    tabs = index_tables(sym, 2, ("ones", "graded"))
    two = [t for t in tabs if len(t) == 2 and t[0][1] != t[1][1]]
    one = [t for t in tabs if len(t) == 1]
    if sym != "Z2" and not thorough:
        two, one = two[:n_two], one[:n_one]
    return two, one
