"""Deterministic generators of *every* structure inside a bound (engine B enumerates structure,
the solver quantifies over data).  Specs are plain python data (picklable, repr-able)."""

import itertools
import random

from . import sym as gs

UNIVERSE = {
    "Z2": [0, 1],
    "Z4": [0, 1, 2, 3],
    "U1": [-1, 0, 1],
    "Z2Z2": [(0, 0), (0, 1), (1, 0), (1, 1)],
    "U1U1": [(0, 0), (0, 1), (1, 0), (1, 1)],
}
UNIVERSE_THOROUGH = dict(UNIVERSE, U1=[-1, 0, 1, 2], U1U1=[(0, 0), (0, 1), (1, 0), (1, 1), (-1, 0)])


def index_tables(sym, max_charges=2, size_tables=("ones", "graded"), universe=None):
    """every non-empty subset of the universe with <= max_charges charges, under each size table;
    -> list of chargemaps as tuples ((charge, size), ...) ascending"""
    uni = sorted((universe or UNIVERSE)[sym])
    out = []
    seen = set()
    for k in range(1, max_charges + 1):
        for sub in itertools.combinations(uni, k):
            for st in size_tables:
                if st == "ones":
                    cm = tuple((c, 1) for c in sub)
                elif st == "graded":
                    cm = tuple((c, i + 1) for i, c in enumerate(sub))
                elif st == "rgraded":
                    cm = tuple((c, len(sub) - i) for i, c in enumerate(sub))
                elif st == "twos":
                    cm = tuple((c, 2) for c in sub)
                else:
                    raise ValueError(st)
                if cm not in seen:
                    seen.add(cm)
                    out.append(cm)
    return out


def possible_charges(sym, index_specs):
    """every total charge with >= 1 valid sector"""
    duals = [d for _, d in index_specs]
    lists = [[c for c, _ in cm] for cm, _ in index_specs]
    qs = []
    for sec in itertools.product(*lists):
        q = gs.sector_charge(sym, sec, duals)
        if q not in qs:
            qs.append(q)
    return sorted(qs)


def sectors_of(sym, index_specs, charge):
    duals = [d for _, d in index_specs]
    lists = [[c for c, _ in cm] for cm, _ in index_specs]
    return gs.valid_sectors(sym, lists, duals, charge)


def subsets(items, threshold=4, rng=None, nrand=3, allow_empty=False):
    """every non-empty subset when len<=threshold; otherwise all single-missing, all
    single-present and a few seeded ones.  -> (list of tuples, exhaustive)"""
    items = list(items)
    n = len(items)
    lo = 0 if allow_empty else 1
    if n <= threshold:
        out = []
        for k in range(n, lo - 1, -1):
            out.extend(itertools.combinations(items, k))
        return out, True
    out = [tuple(items)]
    out += [tuple(x for j, x in enumerate(items) if j != i) for i in range(n)]
    out += [(x,) for x in items]
    rng = rng or random.Random(0)
    for _ in range(nrand):
        s = tuple(x for x in items if rng.random() < 0.5)
        if s and s not in out:
            out.append(s)
    return out, False


def index_structs(sym, ndim, tables, duals_all=True):
    """all (chargemap, dual) tuples for ndim indices"""
    per = [(cm, d) for cm in tables for d in ((False, True) if duals_all else (False,))]
    return itertools.product(per, repeat=ndim)


def array_specs(sym, ndim, tables, fermionic=False, generic=False, sparsity_threshold=4,
                phases=False, rng=None, labels=("L",), full_only=False, charges="all",
                name="a"):
    """every array structure: indices x charge x sparsity [x pending-sign table]"""
    rng = rng or random.Random(0)
    for ixs in index_structs(sym, ndim, tables):
        ixs = tuple(ixs)
        for q in possible_charges(sym, ixs):
            if charges == "even" and gs.parity(sym, q):
                continue
            secs = sectors_of(sym, ixs, q)
            if full_only:
                pres_list, ex = [tuple(secs)], True
            else:
                pres_list, ex = subsets(secs, sparsity_threshold, rng)
            for pres in pres_list:
                base = dict(sym=sym, generic=generic, fermionic=fermionic, indices=ixs, charge=q,
                            present=tuple(pres), phases=(), oddpos=None, name=name, exhaustive=ex)
                if fermionic and gs.parity(sym, q):
                    base["oddpos"] = labels[0]
                if fermionic and phases:
                    ph_list, ex2 = subsets(pres, sparsity_threshold, rng, allow_empty=True)
                    for ph in ph_list:
                        yield dict(base, phases=tuple(ph), exhaustive=ex and ex2)
                else:
                    yield base


def conj_index(ixspec):
    cm, d = ixspec
    return (cm, not d)


def perms(n):
    return list(itertools.permutations(range(n)))


def ordered_groupings(ndim, max_groups=2, min_group=1):
    """all lists of disjoint ordered axis groups (each a tuple of distinct axes)"""
    out = []
    axes = list(range(ndim))

    def rec(remaining, groups):
        if groups:
            out.append(tuple(groups))
        if len(groups) >= max_groups:
            return
        for k in range(min_group, len(remaining) + 1):
            for g in itertools.permutations(remaining, k):
                rest = [a for a in remaining if a not in g]
                rec(rest, groups + [tuple(g)])

    rec(axes, [])
    return out


def thin(items, limit, seed):
    """deterministic seeded sub-sample when a family exceeds `limit` -> (items, exhaustive)"""
    items = list(items)
    if limit is None or len(items) <= limit:
        return items, True
    rng = random.Random(seed)
    idx = sorted(rng.sample(range(len(items)), limit))
    return [items[i] for i in idx], False
