"""Catalogue of public operations, shared by the sweeps of C01 (results are valid), C09 (lazy signs
are unobservable) and C14 (operands are not modified; in-place == out-of-place).

An op instance is (name, args).  ``gen_unary(spec)`` enumerates the instances applicable to an
array structure; ``apply_unary(S, x, name, args, inplace)`` calls the real library."""

import itertools

import numpy as np

from . import env  # noqa
import symmray as sr
import autoray as ar

from . import families as fam
from . import sym as gs
from .build import build_vector


def _total_sizes(spec):
    return [sum(d for _, d in cm) for cm, _ in spec["indices"]]


def reshape_targets(sizes, max_targets=12):
    """shapes reachable by merging adjacent axes and dropping size-one axes"""
    n = len(sizes)
    out = []
    for cuts in itertools.product((0, 1), repeat=max(0, n - 1)):
        groups, cur = [], [0]
        for i, c in enumerate(cuts):
            if c:
                groups.append(cur)
                cur = [i + 1]
            else:
                cur.append(i + 1)
        groups.append(cur)
        merged = [int(np.prod([sizes[a] for a in g])) for g in groups]
        ones = [i for i, m in enumerate(merged) if m == 1]
        for k in range(len(ones) + 1):
            for drop in itertools.combinations(ones, k):
                t = tuple(m for i, m in enumerate(merged) if i not in drop)
                if t not in out:
                    out.append(t)
    return out[:max_targets]


def gen_unary(spec, level="quick"):
    """-> list of (name, args) applicable to the structure"""
    nd = len(spec["indices"])
    f = bool(spec.get("fermionic"))
    sym = spec["sym"]
    sizes = _total_sizes(spec)
    ops = [("copy", ())]
    perms = fam.perms(nd)
    for p in perms:
        ops.append(("transpose", (p,)))
    ops.append(("transpose", (None,)))
    if nd >= 2:
        ops.append(("transpose", (tuple(a - nd for a in perms[-1]),)))
        ops.append(("transpose", ((-1,) + tuple(range(nd - 1)),)))  # a cyclic shift spelled with mixed-sign axis numbers
    if f:
        for pp in (True, False):
            for pdl in (False, True):
                ops.append(("conj", (pp, pdl)))
        ops += [("dagger", (False,)), ("dagger", (True,)), ("H", ())]
        ops.append(("transpose_nophase", (perms[-1],)))
        for k in range(nd):
            ops.append(("phase_flip", ((k,),)))
        if nd >= 2:
            ops.append(("phase_flip", ((0, nd - 1),)))
        for p in perms[1:3]:
            ops.append(("phase_transpose", (p,)))
        ops.append(("phase_transpose", (None,)))
        ops += [("phase_global", ()), ("phase_sync", ())]
        for s in spec["present"][:2]:
            ops.append(("phase_sector", (s,)))
    else:
        ops += [("conj", ()), ("dagger", ()), ("H", ()), ("T", ())]
    if nd >= 1:
        gl = fam.ordered_groupings(nd, max_groups=2)
        if nd >= 3 and level == "quick":
            gl = gl[:: max(1, len(gl) // 10)]
        for g in gl:
            if f:
                ops.append(("fuse", (g, None)))
            else:
                ops.append(("fuse", (g, "insert")))
                ops.append(("fuse", (g, "concat")))
        for g in gl[:6]:
            ops.append(("fuse_unfuse", (g,)))
        if nd >= 2:
            ops.append(("fuse_expand", (((), tuple(range(nd))),)))
            ops.append(("fuse_expand", ((tuple(range(nd)), ()),)))
            ops.append(("fuse_expand", (((0,), (), tuple(range(1, nd))),)))
    for t in reshape_targets(sizes):
        ops.append(("reshape", (t,)))
        ops.append(("reshape_back", (t,)))
    ops.append(("reshape", ((-1,),)))
    ones = [k for k, (cm, _) in enumerate(spec["indices"]) if sum(d for _, d in cm) == 1]
    ops.append(("squeeze", (None,)))
    for k in ones:
        ops.append(("squeeze", (k,)))
    for pos in range(nd + 1):
        ops.append(("expand_dims", (pos, None, None)))
    c1 = fam.UNIVERSE[sym][1]
    ops.append(("expand_dims", (0, c1, True)))
    ops.append(("expand_dims", (nd, c1, False)))
    # non-zero charge with the direction inherited from a neighbouring axis (left neighbour; right neighbour at position 0)
    for pos in sorted({0, nd, min(1, nd)}):
        ops.append(("expand_dims", (pos, c1, None)))
    ops += [("mul_scalar", ()), ("rmul_scalar", ()), ("div_scalar", ()), ("neg", ())]
    ops += [("sync_charges", ()), ("fill_missing_blocks", ())]
    for ax in range(nd):
        chs = [c for c, _ in spec["indices"][ax][0]]
        ops.append(("multiply_diagonal", (ax, tuple(chs))))
        if len(chs) > 1:
            ops.append(("multiply_diagonal", (ax, tuple(chs[:1]))))
    ops += [("norm", ()), ("sum", ()), ("to_dense", ())]
    if nd == 2:
        # decompositions (LAPACK replaced by contract stubs: vlib.stubs)
        ops += [("qr", (False,)), ("qr", (True,)), ("svd", ()), ("svd_truncated", (1,)), ("svd_truncated", (2,))]
        (cm0, d0), (cm1, d1) = spec["indices"]
        if cm0 == cm1 and d0 != d1:
            ops += [("trace", ()), ("einsum", ("aa->",))]
        ops += [("einsum", ("ab->ba",))]
    if nd == 3:
        ops += [("einsum", ("abc->cab",))]
        for lhs, i, j in (("aab", 0, 1), ("aba", 0, 2), ("baa", 1, 2)):
            (cmi, di), (cmj, dj) = spec["indices"][i], spec["indices"][j]
            if cmi == cmj and di != dj:
                ops.append(("einsum", (lhs + "->b",)))
    return ops


INPLACE_CAPABLE = {"transpose", "conj", "dagger", "fuse", "fuse_expand", "reshape", "squeeze", "expand_dims", "multiply_diagonal",
                   "sync_charges", "phase_flip", "phase_transpose", "phase_global", "phase_sync", "phase_sector",
                   "transpose_nophase", "unfuse", "unfuse_all"}


def apply_unary(S, x, name, args, inplace=False):
    """call the library; returns the result (array / vector / scalar / dense ndarray)"""
    kw = {"inplace": True} if inplace else {}
    f = bool(getattr(x, "fermionic", False))
    if name == "copy":
        return x.copy()
    if name == "transpose":
        return x.transpose(args[0], **kw)
    if name == "transpose_nophase":
        return x.transpose(args[0], phase=False, **kw)
    if name == "T":
        return x.T
    if name == "H":
        return x.H
    if name == "conj":
        if f:
            return x.conj(phase_permutation=args[0], phase_dual=args[1], **kw)
        return x.conj(**kw)
    if name == "dagger":
        if f:
            return x.dagger(phase_dual=args[0], **kw)
        return x.dagger(**kw)
    if name == "phase_flip":
        return x.phase_flip(*args[0], **kw)
    if name == "phase_transpose":
        return x.phase_transpose(args[0], **kw)
    if name == "phase_global":
        return x.phase_global(**kw)
    if name == "phase_sync":
        return x.phase_sync(**kw)
    if name == "phase_sector":
        return x.phase_sector(args[0], **kw)
    if name == "fuse":
        g, mode = args
        if mode is None:
            return x.fuse(*g, **kw)
        return x.fuse(*g, mode=mode, **kw)
    if name == "fuse_expand":
        return x.fuse(*args[0], **kw)
    if name == "fuse_unfuse":
        y = x.fuse(*args[0])
        return y.unfuse_all()
    if name == "reshape":
        return x.reshape(args[0], **kw)
    if name == "reshape_back":
        y = x.reshape(args[0])
        return y.reshape(x.shape)
    if name == "squeeze":
        return x.squeeze(args[0], **kw)
    if name == "expand_dims":
        pos, c, dual = args
        if c is None:
            return x.expand_dims(pos, **kw)
        if dual is None:
            return x.expand_dims(pos, c=c, **kw)
        return x.expand_dims(pos, c=c, dual=dual, **kw)
    if name == "mul_scalar":
        return x * S.scalar("s")
    if name == "rmul_scalar":
        return S.scalar("s") * x
    if name == "div_scalar":
        return x / S.scalar("s")
    if name == "neg":
        return -x
    if name == "sync_charges":
        return x.sync_charges(**kw)
    if name == "fill_missing_blocks":
        y = x if inplace else x.copy()
        y.fill_missing_blocks()
        return y
    if name == "multiply_diagonal":
        ax, chs = args
        cm = dict(x.indices[ax].chargemap)
        v = build_vector(S, "v", [(c, cm[c]) for c in chs if c in cm])
        return x.multiply_diagonal(v, ax, **kw)
    if name == "norm":
        return x.norm()
    if name == "sum":
        return x.sum()
    if name == "to_dense":
        return x.to_dense()
    if name == "item":
        return x.item()
    if name == "max":
        return x.max()
    if name == "min":
        return x.min()
    if name == "abs":
        return x.abs()
    if name == "get_sparsity":
        return x.get_sparsity()
    if name in ("qr_product", "svd_product"):
        from . import stubs
        stubs.install()
        if name == "qr_product":
            q_, r_ = sr.linalg.qr(x)
            return q_ @ r_
        u_, s_, v_ = sr.linalg.svd(x)
        return u_ @ v_.multiply_diagonal(s_, 0)
    if name in ("qr", "svd", "svd_truncated"):
        from . import stubs
        stubs.install()
        if name == "qr":
            return sr.linalg.qr(x, stabilized=args[0])
        if name == "svd":
            return sr.linalg.svd(x)
        return sr.linalg.svd_truncated(x, max_bond=args[0], absorb=None)
    if name == "trace":
        return x.trace()
    if name == "einsum":
        return x.einsum(args[0], preserve_array=True)
    raise ValueError(name)


def gen_binary(a, b, axes):
    """op instances for a contractible pair (axes = (axes_a, axes_b)) """
    ops = []
    for mode in ("blockwise", "fused", "auto"):
        ops.append(("tensordot", (axes, mode)))
    ops.append(("align_axes", (axes,)))
    na, nb = len(a["indices"]), len(b["indices"])
    if axes == ((na - 1,), (0,)) and na <= 2 and nb <= 2:
        ops.append(("matmul", ()))
    return ops


def gen_same_shape_binary():
    return [("add", ()), ("sub", ()), ("mul", ()), ("iadd", ())]


def apply_binary(S, x, y, name, args):
    if name == "tensordot":
        return sr.tensordot(x, y, axes=args[0], mode=args[1], preserve_array=True)
    if name == "align_axes":
        return x.align_axes(y, args[0])
    if name == "matmul":
        return x @ y
    if name == "add":
        return x + y
    if name == "sub":
        return x - y
    if name == "mul":
        return x * y
    if name == "iadd":
        z = x.copy()
        z += y
        return z
    if name == "allclose":
        return bool(x.allclose(y))
    raise ValueError(name)
