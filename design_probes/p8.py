from symmray.abelian_core import calc_reshape_args
_f = calc_reshape_args.__wrapped__

def simulate(shape, axs_unfuse, axs_fuse, axs_expand):
    # independent shape-level simulator (dense sizes; no subsizes here)
    shp = list(shape)
    assert not axs_unfuse
    for grouping in axs_fuse:
        # groups are tuples of contiguous axes; all inserted at min axis
        pos = min(min(g) for g in grouping)
        fused = []
        used = set()
        for g in grouping:
            p = 1
            for ax in g:
                p *= shp[ax]; used.add(ax)
            fused.append(p)
        before = [shp[i] for i in range(pos) if i not in used]
        after = [shp[i] for i in range(pos, len(shp)) if i not in used]
        shp = before + fused + after
    for ax in axs_expand:
        shp.insert(ax, 1)
    return tuple(shp)

def reshape3(a: int, b: int, c: int, m1: bool, m2: bool, dr0: bool, dr1: bool, dr2: bool) -> bool:
    """
    pre: 1 <= a <= 4 and 1 <= b <= 4 and 1 <= c <= 4
    post: _
    """
    shape = (a, b, c)
    groups = [[a]]
    for m, d in ((m1, b), (m2, c)):
        if m:
            groups[-1].append(d)
        else:
            groups.append([d])
    new = []
    for g, dr in zip(groups, (dr0, dr1, dr2)):
        p = 1
        for d in g:
            p = p * d
        if p == 1 and dr:
            continue
        new.append(p)
    newshape = tuple(new)
    if not newshape:
        return True
    res = _f(shape, newshape, (None, None, None))
    return simulate(shape, *res) == newshape
