from typing import List, Tuple
from symmray.fermionic_core import resolve_combined_oddpos, oddpos_dag
from symmray.fermionic_local_operators import FermionicOperator as F
from symmray.linalg import calc_sub_max_bonds
from symmray.abelian_core import calc_reshape_args

class Stub:
    def __init__(self, oddpos, parity):
        self.oddpos = tuple(oddpos); self.parity = parity; self.flips = 0; self._oddpos = None
    def phase_global(self, inplace=False):
        self.flips += 1

def lt_total(l1: int, d1: bool, l2: int, d2: bool, l3: int, d3: bool) -> bool:
    """
    post: _
    """
    a, b, c = F(l1, d1), F(l2, d2), F(l3, d3)
    tri = ((a < b) + (b < a) + (a == b)) == 1
    trans = (not (a < b and b < c)) or (a < c)
    irr = not (a < a)
    return tri and trans and irr

def dag_keeps_sorted(l1: int, d1: bool, l2: int, d2: bool) -> bool:
    """
    post: _
    """
    a, b = F(l1, d1), F(l2, d2)
    if not (a < b):
        return True
    ra, rb = oddpos_dag((a, b))
    return ra < rb

def _is_sorted_reduced(t):
    for x, y in zip(t, t[1:]):
        if not (x < y):
            return False
    return True

def resolve2(l1: int, d1: bool, l2: int, d2: bool, l3: int, d3: bool, podd: bool) -> bool:
    """
    pre: (l1 != l2 or d1 != d2) and (l1 != l3 or d1 != d3) and (l2 != l3 or d2 != d3)
    post: _
    """
    a, b, c = F(l1, d1), F(l2, d2), F(l3, d3)
    # left = sorted (a,b) ; right = (c,)
    if not (a < b) or a.label == b.label:
        return True
    L = Stub((a, b), int(podd)); R = Stub((c,), 1); N = Stub((), 0)
    resolve_combined_oddpos(L, R, N)
    return _is_sorted_reduced(N._oddpos) and N.flips in (0, 1)

def submax(s0: int, s1: int, s2: int, mb: int) -> bool:
    """
    pre: 1 <= s0 <= 6 and 1 <= s1 <= 6 and 1 <= s2 <= 6 and 0 <= mb <= 20
    post: _
    """
    sizes = (s0, s1, s2)
    r = calc_sub_max_bonds.__wrapped__(sizes, mb)
    if mb >= s0 + s1 + s2:
        return tuple(r) == sizes
    return sum(r) == mb and all(0 <= x <= s for x, s in zip(r, sizes))
