import itertools
from symmray.symmetries import calc_phase_permutation
_f = calc_phase_permutation.__wrapped__
PERMS4 = list(itertools.permutations(range(4)))

def ref_sign(par, perm):
    # independent: count inversions among odd entries
    s = 1
    n = len(perm)
    for i in range(n):
        for j in range(i + 1, n):
            if perm[i] > perm[j] and par[perm[i]] and par[perm[j]]:
                s = -s
    return s

def phase4(p0: bool, p1: bool, p2: bool, p3: bool, k: int) -> bool:
    """
    pre: 0 <= k < 24
    post: _
    """
    par = (int(p0), int(p1), int(p2), int(p3))
    perm = PERMS4[k]
    return _f(par, perm) == ref_sign(par, perm)

def phase4_rev(p0: bool, p1: bool, p2: bool, p3: bool) -> bool:
    """
    post: _
    """
    par = (int(p0), int(p1), int(p2), int(p3))
    return _f(par, None) == ref_sign(par, (3, 2, 1, 0))

def phase4_cached(p0: bool, p1: bool, p2: bool, p3: bool) -> bool:
    """
    post: _
    """
    par = (int(p0), int(p1), int(p2), int(p3))
    return calc_phase_permutation(par, None) == ref_sign(par, (3, 2, 1, 0))
