import itertools, time, numpy as np, z3
import symmray as sr
from symmray.abelian_core import BlockIndex

def R(v): return v if z3.is_expr(v) else z3.RealVal(v)
class ZC:
    __slots__ = ("re", "im")
    def __init__(s, re, im=0): s.re, s.im = R(re), R(im)
    @staticmethod
    def of(o):
        if isinstance(o, ZC): return o
        if isinstance(o, (int, float)): return ZC(o)
        if isinstance(o, complex): return ZC(o.real, o.imag)
        return None
    def __add__(s, o):
        o = ZC.of(o); return NotImplemented if o is None else ZC(s.re + o.re, s.im + o.im)
    __radd__ = __add__
    def __sub__(s, o): o = ZC.of(o); return ZC(s.re - o.re, s.im - o.im)
    def __mul__(s, o):
        o = ZC.of(o); return NotImplemented if o is None else ZC(s.re * o.re - s.im * o.im, s.re * o.im + s.im * o.re)
    __rmul__ = __mul__
    def __neg__(s): return ZC(-s.re, -s.im)
    def conjugate(s): return ZC(s.re, -s.im)
cnt = itertools.count()
def fill(sh):
    a = np.empty(sh, dtype=object)
    for i in np.ndindex(*sh):
        k = next(cnt); a[i] = ZC(z3.Real(f"a{k}"), z3.Real(f"b{k}"))
    return a
tables = [{0: 1}, {1: 2}, {0: 1, 1: 2}]
idx = [BlockIndex(t, dual=d) for t in tables for d in (False, True)]
t0 = time.time(); n = 0; bad = 0
for ixs in itertools.product(idx, repeat=2):
    for q in (0, 1):
        x = sr.Z2FermionicArray.from_fill_fn(fill, ixs, charge=q, oddpos=3)
        if not x.blocks: continue
        x.phase_flip(1, inplace=True)
        for pd in (True,):
            for a, b in ((x.conj(phase_dual=pd), x), (x, x.conj(phase_dual=pd))):
                v = sr.tensordot(a, b, axes=2)
                ref = z3.RealVal(0)
                for blk in x.blocks.values():
                    for e in blk.ravel(): ref = ref + e.re * e.re + e.im * e.im
                if isinstance(v, np.ndarray): v = v.item()
                vv = ZC.of(v)
                assert vv is not None, (type(v), v)
                v = vv
                s = z3.Solver(); s.add(z3.Or(v.re != ref, v.im != 0))
                r = s.check(); n += 1; bad += (r != z3.unsat)
print("norm identities", n, "not proved", bad, "time", round(time.time() - t0, 2))
