"""probe: z3-term scalars + forking path controller (scratch, not framework)"""
import itertools, numpy as np, z3

class Abort(BaseException): pass

class Ctl:
    def __init__(self):
        self.solver = z3.Solver()
        self.prefix = []      # decisions to replay
        self.trace = []       # decisions taken this run
        self.work = []        # pending prefixes
        self.assump = []      # stub contracts (global for run)
        self.nq = 0
    def decide(self, cond):
        c = z3.simplify(cond)
        if z3.is_true(c): return True
        if z3.is_false(c): return False
        i = len(self.trace)
        if i < len(self.prefix):
            d = self.prefix[i]
        else:
            self.nq += 2
            st = self.solver.check(c); sf = self.solver.check(z3.Not(c))
            t_ok = st != z3.unsat; f_ok = sf != z3.unsat
            if t_ok and f_ok:
                d = True
                self.work.append(self.trace + [False])
            elif t_ok: d = True
            elif f_ok: d = False
            else: raise Abort()
        self.trace.append(d)
        self.solver.add(c if d else z3.Not(c))
        return d
    def assume(self, c):
        self.solver.add(c)

CTL = None
def explore(fn):
    global CTL
    work = [[]]
    paths = 0
    results = []
    while work:
        prefix = work.pop()
        CTL = Ctl(); CTL.prefix = prefix
        try:
            r = fn()
            results.append((list(CTL.trace), r))
            paths += 1
        except Abort:
            pass
        work.extend(CTL.work)
    return paths, results

def lift(o):
    if isinstance(o, ZT): return o.e
    if isinstance(o, ZB): return z3.If(o.e, z3.RealVal(1), z3.RealVal(0))
    if isinstance(o, (bool, np.bool_)): return z3.RealVal(int(o))
    if isinstance(o, (int, float, np.integer, np.floating)): return z3.RealVal(repr(float(o)) if not float(o).is_integer() else int(o))
    return None

class ZB:
    __slots__ = ("e",)
    def __init__(self, e): self.e = e
    def __bool__(self): return CTL.decide(self.e)
    def __and__(s, o): return ZB(z3.And(s.e, o.e if isinstance(o, ZB) else z3.BoolVal(bool(o))))
    def __or__(s, o): return ZB(z3.Or(s.e, o.e if isinstance(o, ZB) else z3.BoolVal(bool(o))))
    def __invert__(s): return ZB(z3.Not(s.e))
    def __add__(s, o): return ZT(lift(s)) + o
    __radd__ = __add__
    def __repr__(s): return f"ZB({s.e})"

def _bin(op):
    def f(s, o):
        l = lift(o)
        if l is None: return NotImplemented
        return ZT(op(s.e, l))
    return f
def _rbin(op):
    def f(s, o):
        l = lift(o)
        if l is None: return NotImplemented
        return ZT(op(l, s.e))
    return f
def _cmp(op):
    def f(s, o):
        l = lift(o)
        if l is None: return NotImplemented
        return ZB(op(s.e, l))
    return f

_fresh = itertools.count()
class ZT:
    __slots__ = ("e",)
    def __init__(self, e): self.e = e
    __add__ = _bin(lambda a, b: a + b); __radd__ = _rbin(lambda a, b: a + b)
    __sub__ = _bin(lambda a, b: a - b); __rsub__ = _rbin(lambda a, b: a - b)
    __mul__ = _bin(lambda a, b: a * b); __rmul__ = _rbin(lambda a, b: a * b)
    __truediv__ = _bin(lambda a, b: a / b); __rtruediv__ = _rbin(lambda a, b: a / b)
    __lt__ = _cmp(lambda a, b: a < b); __le__ = _cmp(lambda a, b: a <= b)
    __gt__ = _cmp(lambda a, b: a > b); __ge__ = _cmp(lambda a, b: a >= b)
    __eq__ = _cmp(lambda a, b: a == b); __ne__ = _cmp(lambda a, b: a != b)
    __hash__ = None
    def __neg__(s): return ZT(-s.e)
    def __abs__(s): return ZT(z3.If(s.e >= 0, s.e, -s.e))
    def conjugate(s): return s
    def sqrt(s):
        r = z3.Real(f"sqrt{next(_fresh)}"); CTL.assume(z3.And(r >= 0, r * r == s.e)); return ZT(r)
    def __pow__(s, p):
        if p == 2: return ZT(s.e * s.e)
        if p == 0.5: return s.sqrt()
        if p == 1: return s
        raise NotImplementedError(p)
    def __repr__(s): return f"ZT({s.e})"

def var(name): return ZT(z3.Real(name))
def symarr(shape, pfx):
    a = np.empty(shape, dtype=object)
    for idx in np.ndindex(*shape):
        a[idx] = var(pfx + "_" + "_".join(map(str, idx)))
    return a
def tz(v):
    l = lift(v)
    assert l is not None, type(v)
    return l
