from zt import *
import zt, z3, itertools

def implied(e):
    s = zt.CTL.solver
    if s.check(z3.Not(e)) == z3.unsat: return True
    if s.check(e) == z3.unsat: return False
    return None
_old_lift = zt.lift
def lift2(o):
    if isinstance(o, ZB):
        r = implied(o.e)
        if r is True: return z3.RealVal(1)
        if r is False: return z3.RealVal(0)
    return _old_lift(o)
zt.lift = lift2
def _abs(s):
    if zt.CTL.decide(s.e > 0): return s
    if zt.CTL.decide(s.e < 0): return ZT(-s.e)
    return ZT(z3.RealVal(0))
ZT.__abs__ = _abs
_q = itertools.count()
def _div(s, o):
    l = zt.lift(o)
    a, b = z3.simplify(s.e), z3.simplify(l)
    if z3.eq(a, b): return ZT(z3.RealVal(1))
    if z3.eq(a, z3.simplify(-b)) or z3.eq(z3.simplify(-a), b): return ZT(z3.RealVal(-1))
    q = z3.Real(f"q{next(_q)}"); zt.CTL.assume(q * b == a); return ZT(q)
ZT.__truediv__ = _div
ZT.__add__ = zt._bin(lambda a, b: a + b); ZT.__radd__ = zt._rbin(lambda a, b: a + b)
ZB.__add__ = lambda s, o: ZT(zt.lift(s)) + o
ZB.__radd__ = ZB.__add__
