import itertools
import symmray as sr
from symmray.abelian_core import BlockIndex, AbelianArray
from symmray.networks import parse_edges_to_site_info

UNI = (-1, 0, 1)
def sectors_u1(d0: bool, d1: bool, d2: bool, q: int, p00: bool, p01: bool, p02: bool, p10: bool, p11: bool, p12: bool, p20: bool, p21: bool, p22: bool) -> bool:
    """
    pre: -3 <= q <= 3
    post: _
    """
    pres = ((p00, p01, p02), (p10, p11, p12), (p20, p21, p22))
    cms = [{c: 1 for c, p in zip(UNI, ps) if p} for ps in pres]
    if not all(cms):
        return True
    duals = (d0, d1, d2)
    x = AbelianArray([BlockIndex(cm, dual=d) for cm, d in zip(cms, duals)], charge=q, symmetry="U1")
    got = list(x.gen_valid_sectors())
    want = [s for s in itertools.product(*[sorted(cm) for cm in cms])
            if sum((-c if d else c) for c, d in zip(s, duals)) == q]
    return sorted(got) == sorted(want) and len(set(got)) == len(got)

CAND = [(0, 1), (0, 2), (1, 2), (0, 3), (1, 3), (2, 3)]
def siteinfo(e0: bool, e1: bool, e2: bool, e3: bool, e4: bool, e5: bool, f0: bool, f1: bool, f2: bool, f3: bool, f4: bool, f5: bool) -> bool:
    """
    post: _
    """
    edges = []
    for (a, b), e, f in zip(CAND, (e0, e1, e2, e3, e4, e5), (f0, f1, f2, f3, f4, f5)):
        if e:
            edges.append((b, a) if f else (a, b))
    if not edges:
        return True
    info = parse_edges_to_site_info(edges, bond_dim=3, phys_dim=2)
    deg = {}
    for a, b in edges:
        deg[a] = deg.get(a, 0) + 1; deg[b] = deg.get(b, 0) + 1
    ok = set(info) == set(deg)
    for s, d in deg.items():
        ok = ok and info[s]["coordination"] == d and len(info[s]["inds"]) == d + 1
    # each bond index shared by exactly two sites with opposite duals
    seen = {}
    for s, i in info.items():
        for ind, du in zip(i["inds"][:-1], i["duals"][:-1]):
            seen.setdefault(ind, []).append((s, du))
    ok = ok and len(seen) == len(edges) and all(len(v) == 2 and v[0][1] != v[1][1] for v in seen.values())
    return ok
