import random, numpy as np, symmray as sr
from gt import rand_index, rand_arr, from_lib
rng = random.Random(21)
stats = {}
for trial in range(600):
    sym = rng.choice(["Z2", "U1"])
    i, k, j = (rand_index(rng, sym) for _ in range(3))
    try:
        A = rand_arr(rng, sym, [i, k], 1); B = rand_arr(rng, sym, [k.conj(), j], 2)
    except RuntimeError:
        continue
    psi = sr.tensordot(A, B, axes=((1,), (0,)), preserve_array=True)   # legs i j
    ref = sum(v * v for v in from_lib(psi, sym).el.values())
    Ac, Bc = A.conj(), B.conj()
    # flip dangling legs that were bra-like in the ket network
    if i.dual: Ac = Ac.phase_flip(0)
    if j.dual: Bc = Bc.phase_flip(1)
    # route 1: build bra then contract with ket
    psic = sr.tensordot(Ac, Bc, axes=((1,), (0,)), preserve_array=True)
    v1 = sr.tensordot(psic, psi, axes=((0, 1), (0, 1)), preserve_array=True)
    v1r = sr.tensordot(psi, psic, axes=((0, 1), (0, 1)), preserve_array=True)
    # route 2: sandwich: (Ac . A) over i, then with B over k, then Bc
    t = sr.tensordot(Ac, A, axes=((0,), (0,)), preserve_array=True)      # legs kc, k
    t = sr.tensordot(t, B, axes=((1,), (0,)), preserve_array=True)       # legs kc, j
    v2 = sr.tensordot(t, Bc, axes=((0, 1), (0, 1)), preserve_array=True)
    # whole-network conj should also equal psi.conj() with the flips
    def val(c):
        c = c.phase_sync(); return c.blocks.get((), 0) if c.blocks else 0
    key = (A.parity, B.parity, val(v1) == ref, val(v1r) == ref, val(v2) == ref)
    stats[key] = stats.get(key, 0) + 1
for k_, v in sorted(stats.items()): print(k_, v)
