from typing import Tuple
from symmray.symmetries import Z2, Z4, U1, Z2Z2, U1U1

def u1_assoc(a: int, b: int, c: int) -> bool:
    """
    post: _
    """
    s = U1()
    return s.combine(s.combine(a, b), c) == s.combine(a, s.combine(b, c)) == s.combine(a, b, c)

def u1_inv(a: int, d: bool) -> bool:
    """
    post: _
    """
    s = U1()
    return s.combine(a, s.sign(a)) == s.combine() and s.sign(a, False) == a

def z4_inv(a: int) -> bool:
    """
    pre: Z4().valid(a)
    post: _
    """
    s = Z4()
    return s.valid(s.sign(a)) and s.combine(a, s.sign(a)) == s.combine()

def z2z2_par(a: Tuple[int, int], b: Tuple[int, int]) -> bool:
    """
    pre: Z2Z2().valid(a, b)
    post: _
    """
    s = Z2Z2()
    return s.parity(s.combine(a, b)) == (s.parity(a) + s.parity(b)) % 2

def u1u1_assoc(a: Tuple[int, int], b: Tuple[int, int], c: Tuple[int,int]) -> bool:
    """
    post: _
    """
    s = U1U1()
    return s.combine(s.combine(a, b), c) == s.combine(a, s.combine(b, c)) and s.combine(a, s.sign(a)) == (0, 0) and s.parity(s.combine(a,b)) == (s.parity(a)+s.parity(b))%2
