import time, numpy as np, z3, itertools
import autoray as ar
import zt
from zt import ZT, ZB, symarr, tz, var
import symmray as sr

ar.register_function("zobj", "zeros", lambda shape, **kw: np.zeros(shape, dtype=object))

def f():
    t, U, mu = var("t"), var("U"), var("mu")
    zt.CTL.assume(z3.And(t.e != 0, U.e != 0, mu.e != 0))
    G = sr.fermi_hubbard_local_array("U1U1", t=t, U=U, mu=mu, coordinations=(2, 3), like="zobj")
    return G.num_blocks, G.blocks[((0,1),(1,1),(0,1),(1,1))].ravel()[0], G.blocks[((0, 0), (1, 1), (0, 1), (1, 0))].ravel()[0]
t0 = time.time()
paths, res = zt.explore(f)
print(paths, res[0][1], time.time() - t0)
