import itertools, random, warnings
import numpy as np, symmray as sr
from symmray.abelian_core import BlockIndex
from symmray import FermionicOperator as F
warnings.simplefilter("ignore")

def fock_ops(nmodes):
    dim = 2 ** nmodes
    states = list(itertools.product((0, 1), repeat=nmodes))
    idx = {s: i for i, s in enumerate(states)}
    cre = []
    for k in range(nmodes):
        m = np.zeros((dim, dim))
        for s in states:
            if s[k] == 0:
                t = list(s); t[k] = 1
                sign = (-1) ** sum(s[:k])
                m[idx[tuple(t)], idx[s]] = sign
        cre.append(m)
    return states, idx, cre

def term_matrix(term, modes, cre):
    dim = cre[0].shape[0]
    m = np.eye(dim)
    for op in term:
        k = modes.index(op.label)
        m = m @ (cre[k] if op.dual else cre[k].T)
    return m

def run(sym, nsites, rng):
    labels = "abc"[:nsites]
    ops = [F(l) for l in labels]
    bases = [((), (o.dag,)) for o in ops]
    states, idx, cre = fock_ops(nsites)
    # random even-parity terms
    terms = []
    for _ in range(rng.randint(1, 4)):
        L = rng.choice([2, 2, 4])
        t = tuple(rng.choice([o, o.dag]) for o in (rng.choice(ops) for _ in range(L)))
        if sym == "U1" and sum(1 if o.dual else -1 for o in t) != 0:
            continue
        terms.append((rng.randint(1, 5), t))
    if not terms: return None
    G = sr.build_local_fermionic_array(terms, bases, sym, index_maps=[[0, 1]] * nsites)
    M = sum(c * term_matrix(t, list(labels), cre) for c, t in terms)
    S = np.zeros_like(M)
    for q in ((0, 1) if sym == "Z2" else range(nsites + 1)):
        cls = {"Z2": sr.Z2FermionicArray, "U1": sr.U1FermionicArray}[sym]
        ixs = [BlockIndex({0: 1, 1: 1}, dual=False) for _ in range(nsites)]
        for n in states:
            if (sum(n) % 2 if sym == "Z2" else sum(n)) != q: continue
            psi = cls(ixs, charge=q, blocks={n: np.ones((1,) * nsites)}, oddpos="p")
            phi = sr.tensordot(G, psi, axes=(tuple(range(nsites, 2 * nsites)), tuple(range(nsites))))
            if not isinstance(phi, sr.AbelianArray): continue
            phi = phi.phase_sync()
            for n2, blk in phi.blocks.items():
                S[idx[n2], idx[n]] = blk.ravel()[0]
    return M, S, states

rng = random.Random(5)
for sym in ("Z2", "U1"):
    for nsites in (1, 2, 3):
        ratios = {}
        bad = 0
        for trial in range(60):
            r = run(sym, nsites, rng)
            if r is None: continue
            M, S, states = r
            for i in range(len(states)):
                for j in range(len(states)):
                    if abs(M[i, j]) > 1e-12 or abs(S[i, j]) > 1e-12:
                        if abs(abs(M[i, j]) - abs(S[i, j])) > 1e-9: bad += 1; continue
                        sgn = int(np.sign(M[i, j] * S[i, j]))
                        ratios.setdefault((states[i], states[j]), set()).add(sgn)
        incons = {k: v for k, v in ratios.items() if len(v) > 1}
        # does sign factor as d(n') d(n)?
        sg = {k: next(iter(v)) for k, v in ratios.items() if len(v) == 1}
        # try to solve d by propagation
        d = {}
        ok = True
        for (a, b), s in sorted(sg.items()):
            if a == b and s != 1: ok = False
        import collections
        adj = collections.defaultdict(list)
        for (a, b), s in sg.items(): adj[a].append((b, s)); adj[b].append((a, s))
        for root in adj:
            if root in d: continue
            d[root] = 1; stack = [root]
            while stack:
                u = stack.pop()
                for v, s in adj[u]:
                    if v not in d: d[v] = d[u] * s; stack.append(v)
                    elif d[v] != d[u] * s: ok = False
        print(sym, nsites, "magnitude mismatches", bad, "inconsistent sign pairs", len(incons), "factorises as D M D:", ok, "D=", {k: v for k, v in sorted(d.items())})
