"""probe: independent dense graded-tensor oracle vs library (concrete integer data)"""
import itertools, random
import numpy as np
import symmray as sr
from symmray.abelian_core import BlockIndex

def par(sym, c):
    if sym == "Z2": return c % 2
    if sym == "U1": return c % 2
    if sym in ("Z2Z2",): return (c[0] ^ c[1])
    if sym == "U1U1": return (c[0] + c[1]) % 2

class GT:
    # legs: list of (kind, dual, label); kind in {'d','r'}; elements: dict idx-tuple -> value
    # idx entries: for dummy legs: 0 ; for real legs: (charge, offset)
    def __init__(self, sym, legs, el):
        self.sym, self.legs, self.el = sym, list(legs), dict(el)
    def odd(self, k, v):
        return 1 if self.legs[k][0] == 'd' else par(self.sym, v[0])
    def permute(self, perm):
        new = {}
        n = len(perm)
        for idx, val in self.el.items():
            s = 1
            for i in range(n):
                for j in range(i + 1, n):
                    if perm[i] > perm[j] and self.odd(perm[i], idx[perm[i]]) and self.odd(perm[j], idx[perm[j]]):
                        s = -s
            new[tuple(idx[p] for p in perm)] = s * val
        return GT(self.sym, [self.legs[p] for p in perm], new)

def from_lib(x, symname):
    x = x.phase_sync()
    legs = [('d', op.dual, op.label) for op in x.oddpos] + [('r', ix.dual, None) for ix in x.indices]
    nd = len(x.oddpos)
    el = {}
    for sector, blk in x.blocks.items():
        blk = np.asarray(blk, dtype=object)
        for off in np.ndindex(*blk.shape):
            el[(0,) * nd + tuple(zip(sector, off))] = blk[off]
    return GT(symname, legs, el)

def tprod(A, B):
    el = {}
    for ia, va in A.el.items():
        for ib, vb in B.el.items():
            el[ia + ib] = va * vb
    return GT(A.sym, A.legs + B.legs, el)

def contract_last_pair_adjacent(T, i):
    """legs i, i+1 are a contracted pair (left operand's leg then right operand's leg)."""
    (k1, d1, _), (k2, d2, _) = T.legs[i], T.legs[i + 1]
    assert d1 != d2
    el = {}
    for idx, val in T.el.items():
        if idx[i] != idx[i + 1]:
            continue
        s = 1
        if (not d1) and T.odd(i, idx[i]):   # ket then bra
            s = -1
        key = idx[:i] + idx[i + 2:]
        el[key] = el.get(key, 0) + s * val
    return GT(T.sym, T.legs[:i] + T.legs[i + 2:], el)

def contract(A, B, axes_a, axes_b):
    na, nb = len(A.legs), len(B.legs)
    dA = [k for k in range(na) if A.legs[k][0] == 'd']; dB = [k for k in range(nb) if B.legs[k][0] == 'd']
    ra = [k for k in range(na) if A.legs[k][0] == 'r']; rb = [k for k in range(nb) if B.legs[k][0] == 'r']
    ca = [ra[a] for a in axes_a]; cb = [rb[b] for b in axes_b]
    fa = [k for k in ra if k not in ca]; fb = [k for k in rb if k not in cb]
    T = tprod(A, B)
    order = dA + [na + k for k in dB] + fa + ca + [na + k for k in reversed(cb)] + [na + k for k in fb]
    T = T.permute(order)
    pos = len(dA) + len(dB) + len(fa) + len(ca) - 1
    for _ in range(len(ca)):
        T = contract_last_pair_adjacent(T, pos)
        pos -= 1
    return T

def canon_dummies(T, target):
    """permute dummy legs (all at left) to match `target` list of (label,dual), annihilating conjugate pairs"""
    nd = sum(1 for l in T.legs if l[0] == 'd')
    # annihilate pairs: find label with both dualities
    while True:
        found = None
        for i in range(nd):
            for j in range(nd):
                if i != j and T.legs[i][2] == T.legs[j][2] and T.legs[i][1] and not T.legs[j][1]:
                    found = (i, j); break
            if found: break
        if not found: break
        i, j = found   # i is dual(bra) , j non-dual (ket): bring to front as (i, j) then evaluate -> 1
        rest = [k for k in range(len(T.legs)) if k not in (i, j)]
        T = T.permute([i, j] + rest)
        T = GT(T.sym, T.legs[2:], {idx[2:]: v for idx, v in T.el.items()})
        nd -= 2
    cur = [(l[2], l[1]) for l in T.legs[:nd]]
    assert sorted(map(repr, cur)) == sorted(map(repr, target)), (cur, target)
    perm = [cur.index(t) for t in target] + list(range(nd, len(T.legs)))
    return T.permute(perm)

def rand_index(rng, sym):
    uni = {"Z2": [0, 1], "U1": [-1, 0, 1, 2]}[sym]
    k = rng.randint(1, min(3, len(uni)))
    cs = rng.sample(uni, k)
    return BlockIndex({c: rng.randint(1, 2) for c in cs}, dual=rng.random() < 0.5)

def rand_arr(rng, sym, indices, label):
    cls = {"Z2": sr.Z2FermionicArray, "U1": sr.U1FermionicArray}[sym]
    # choose a charge with at least one valid sector
    for _ in range(50):
        sec = tuple(rng.choice(list(ix.chargemap)) for ix in indices)
        s = cls.get_class_symmetry()
        q = s.combine(*[s.sign(c, ix.dual) for c, ix in zip(sec, indices)])
        x = cls.from_fill_fn(lambda sh: np.array([rng.randint(-5, 5) for _ in range(int(np.prod(sh)))], dtype=object).reshape(sh), indices, charge=q, oddpos=label)
        if x.blocks:
            # random sparsity and random pending phases
            for k in list(x.blocks):
                if len(x.blocks) > 1 and rng.random() < 0.3:
                    del x.blocks[k]
            for k in list(x.blocks):
                if rng.random() < 0.4:
                    x.phases[k] = -1
            return x
    raise RuntimeError

def compare(T, c, symname):
    G = from_lib(c, symname)
    T = canon_dummies(T, [(op.label, op.dual) for op in c.oddpos])
    keys = set(T.el) | set(G.el)
    bad = [(k, T.el.get(k, 0), G.el.get(k, 0)) for k in keys if T.el.get(k, 0) != G.el.get(k, 0)]
    return bad

if __name__ == "__main__":
    rng = random.Random(1)
    nbad = 0; ntot = 0; nodd = 0
    for trial in range(1500):
        sym = rng.choice(["Z2", "U1"])
        na, nb = rng.randint(1, 3), rng.randint(1, 3)
        ncon = rng.randint(0, min(na, nb))
        ia = [rand_index(rng, sym) for _ in range(na)]
        axes_a = rng.sample(range(na), ncon); axes_b = rng.sample(range(nb), ncon)
        ib = [None] * nb
        for a, b in zip(axes_a, axes_b): ib[b] = ia[a].conj()
        ib = [ix if ix is not None else rand_index(rng, sym) for ix in ib]
        la, lb = rng.sample([1, 2, 3, "x", "y"][:3], 2) if rng.random() < 0.7 else rng.sample(["p", "q", "r"], 2)
        try:
            a = rand_arr(rng, sym, ia, la); b = rand_arr(rng, sym, ib, lb)
        except RuntimeError:
            continue
        for mode in ("blockwise", "fused"):
            c = sr.tensordot(a, b, axes=(axes_a, axes_b), mode=mode, preserve_array=True)
            T = contract(from_lib(a, sym), from_lib(b, sym), axes_a, axes_b)
            bad = compare(T, c, sym)
            ntot += 1
            nodd += bool(a.parity or b.parity)
            if bad:
                nbad += 1
                if nbad < 4:
                    print("MISMATCH", sym, mode, [str(i) for i in ia], [str(i) for i in ib], axes_a, axes_b, a.charge, b.charge, a.oddpos, b.oddpos, c.oddpos, bad[:3])
    print("total", ntot, "with odd operand", nodd, "mismatch", nbad)
