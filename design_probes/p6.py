import time, numpy as np, z3, itertools
import zt
from zt import ZT, ZB, symarr, tz
import symmray as sr
from symmray.abelian_core import BlockIndex
import numpy.linalg as nla

_orig_svd = nla.svd
_cnt = itertools.count()
def svd_stub(x, full_matrices=True, **kw):
    if getattr(x, "dtype", None) != object:
        return _orig_svd(x, full_matrices=full_matrices, **kw)
    assert not full_matrices
    m, n = x.shape; k = min(m, n); t = next(_cnt)
    U = symarr((m, k), f"U{t}"); s = symarr((k,), f"s{t}"); V = symarr((k, n), f"V{t}")
    C = []
    for i in range(k):
        C.append(tz(s[i]) >= 0)
        if i + 1 < k: C.append(tz(s[i]) >= tz(s[i + 1]))
        for j in range(k):
            C.append(sum((tz(U[r, i]) * tz(U[r, j]) for r in range(m)), z3.RealVal(0)) == (1 if i == j else 0))
            C.append(sum((tz(V[i, c]) * tz(V[j, c]) for c in range(n)), z3.RealVal(0)) == (1 if i == j else 0))
    for i in range(m):
        for j in range(n):
            C.append(sum((tz(U[i, r]) * tz(s[r]) * tz(V[r, j]) for r in range(k)), z3.RealVal(0)) == tz(x[i, j]))
    zt.CTL.assume(z3.And(*C))
    return U, s, V
nla.svd = svd_stub
np.linalg.svd = svd_stub

def run(cutoff_mode, cutoff, max_bond):
    def body():
        ia = BlockIndex({0: 2, 1: 1}, dual=False)
        ib = BlockIndex({0: 2, 1: 2}, dual=True)
        x = sr.Z2FermionicArray.from_fill_fn(lambda sh: symarr(sh, f"x{sh}"), (ia, ib), charge=0)
        U, s, VH = sr.linalg.svd_truncated(x, cutoff=cutoff, cutoff_mode=cutoff_mode, max_bond=max_bond, absorb=None)
        kept = {c: len(b) for c, b in s.blocks.items()}
        return kept
    return body

t0 = time.time()
paths, res = zt.explore(run(1, ZT(z3.Real("cut")), -1))
print("paths", paths, "time", time.time() - t0)
from collections import Counter
print(Counter(str(r) for _, r in res))
t0 = time.time()
paths, res = zt.explore(run(4, 0.3, 2))
print("paths", paths, "time", time.time() - t0)
print(Counter(str(r) for _, r in res))
