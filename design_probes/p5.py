import time, itertools
import numpy as np, z3
import symmray as sr
from symmray.abelian_core import BlockIndex

class ZT:
    __slots__ = ("e",)
    def __init__(self, e): self.e = e
    @staticmethod
    def lift(o):
        if isinstance(o, ZT): return o.e
        if isinstance(o, (int, float)): return z3.RealVal(o)
        return NotImplemented
    def __add__(s, o):
        o = ZT.lift(o); return NotImplemented if o is NotImplemented else ZT(s.e + o)
    __radd__ = __add__
    def __sub__(s, o):
        o = ZT.lift(o); return ZT(s.e - o)
    def __rsub__(s, o):
        o = ZT.lift(o); return ZT(o - s.e)
    def __mul__(s, o):
        o = ZT.lift(o); return NotImplemented if o is NotImplemented else ZT(s.e * o)
    __rmul__ = __mul__
    def __neg__(s): return ZT(-s.e)
    def conjugate(s): return s
    def __repr__(s): return f"ZT({s.e})"

cnt = itertools.count()
def symfill(shape):
    a = np.empty(shape, dtype=object)
    for idx in np.ndindex(*shape):
        a[idx] = ZT(z3.Real(f"x{next(cnt)}"))
    return a

t0 = time.time()
ia = BlockIndex({0: 2, 1: 1}, dual=False)
ib = BlockIndex({0: 1, 1: 2}, dual=True)
ic = BlockIndex({0: 2, 1: 2}, dual=False)
a = sr.Z2Array.from_fill_fn(symfill, (ia, ib, ic), charge=1)
b = sr.Z2Array.from_fill_fn(symfill, (ic.conj(), ib.conj(), ia), charge=0)
del a.blocks[(0, 0, 1)]
del b.blocks[(1, 1, 0)]
print("backend", a.backend, a.dtype)
cf = sr.tensordot(a, b, axes=[(2, 1), (0, 1)], mode="fused")
cb = sr.tensordot(a, b, axes=[(2, 1), (0, 1)], mode="blockwise")
df = cf.to_dense(); db = cb.to_dense()
dd = np.tensordot(a.to_dense(), b.to_dense(), axes=[(2, 1), (0, 1)])
print(df.shape, db.shape, dd.shape, "build", time.time() - t0)
def tz(v): return v.e if isinstance(v, ZT) else z3.RealVal(v)
s = z3.Solver()
neq = [tz(x) != tz(y) for x, y in zip(df.ravel(), dd.ravel())] + [tz(x) != tz(y) for x, y in zip(db.ravel(), dd.ravel())]
s.add(z3.Or(*neq))
t1 = time.time(); print(s.check(), "solve", time.time() - t1)
# fuse roundtrip, einsum, trace
xf = a.fuse((2, 0), mode="insert"); xc = a.fuse((2, 0), mode="concat")
print(xf.shape, xc.shape, [k for k in xf.blocks])
xu = xf.unfuse_all()
print(np.einsum("ii->", symfill((2,2))), np.trace(symfill((2,2))))
