"""C02 — abelian contraction equals dense contraction (engine B)."""
import itertools
import random

import numpy as np

from vlib import env  # noqa
import symmray as sr
import autoray as ar

from vlib import families as fam
from vlib import oracle as orc
from vlib import sym as gs
from vlib.build import build
from vlib.driver import Report
from vlib.par import pmap
from vlib.session import run_case, Violation

PID = "C02"


def compare_with_dense(S, name, x, Dref, layouts, expect_charge=None, preserve_array=True):
    """library result x (array or scalar) must hold exactly the reference polynomials"""
    Dref = np.asarray(Dref, dtype=S.dtype())
    if Dref.ndim == 0:
        if isinstance(x, sr.AbelianArray):
            S.require(name + ":scalar-kind", preserve_array, "array returned where scalar expected")
            S.require(name + ":rank", x.ndim == 0, f"rank {x.ndim} for a full contraction")
            if expect_charge is not None:
                S.require(name + ":charge", x.charge == expect_charge, f"charge {x.charge!r} != {expect_charge!r}")
            v = x.blocks.get((), 0)
            S.require(name + ":blocks", set(x.blocks) <= {()}, f"sectors {list(x.blocks)}")
        else:
            S.require(name + ":scalar-kind", not preserve_array, "scalar returned although preserve_array=True")
            v = x
        S.equal(name + "@()", v, Dref[()])
        return
    S.require(name + ":type", isinstance(x, sr.AbelianArray), f"result type {type(x).__name__}")
    S.require(name + ":rank", x.ndim == Dref.ndim, f"rank {x.ndim} != {Dref.ndim}")
    if expect_charge is not None:
        S.require(name + ":charge", x.charge == expect_charge, f"charge {x.charge!r} != {expect_charge!r}")
    ref = orc.dense_coords(Dref, layouts)
    got = orc.coords(x)
    extra = [k for k in got if k not in ref]
    S.require(name + ":extra", not extra, f"stored entries outside the operands' index tables: {extra[:2]}")
    for k, r in ref.items():
        S.equal(f"{name}@{k}", got.get(k, 0), r)


def body_tensordot(S, spec):
    a = build(S, spec["a"])
    b = build(S, spec["b"])
    axes = spec["axes"]
    Da, La = orc.dense_of(a, dtype=S.dtype())
    Db, Lb = orc.dense_of(b, dtype=S.dtype())
    if isinstance(axes, int):
        axa = tuple(range(a.ndim - axes, a.ndim))
        axb = tuple(range(axes))
    else:
        axa = tuple(x % a.ndim for x in axes[0])
        axb = tuple(x % b.ndim for x in axes[1])
    Dref = np.tensordot(Da, Db, axes=(axa, axb))
    lays = [La[i] for i in range(a.ndim) if i not in axa] + [Lb[i] for i in range(b.ndim) if i not in axb]
    qsum = gs.combine(spec["a"]["sym"], [spec["a"]["charge"], spec["b"]["charge"]])
    first = None
    for mode in spec["modes"]:
        for pa in spec["preserve"]:
            how = spec.get("how", "fn")
            if how == "fn":
                c = sr.tensordot(a, b, axes=axes, mode=mode, preserve_array=pa)
            elif how == "ar":
                c = ar.do("tensordot", a, b, axes=axes, mode=mode, preserve_array=pa)
            compare_with_dense(S, f"td[{mode},{int(pa)}]", c, Dref, lays, expect_charge=qsum, preserve_array=pa)
            if first is None:
                first = c
    # canary: one reference element shifted must be refuted
    if Dref.size and S.mode == "sym":
        flat = np.asarray(Dref, dtype=object).reshape(-1)
        S.canary("shifted-ref", flat[0], flat[0] + 1)


def body_matmul(S, spec):
    a = build(S, spec["a"])
    b = build(S, spec["b"])
    Da, La = orc.dense_of(a, dtype=S.dtype())
    Db, Lb = orc.dense_of(b, dtype=S.dtype())
    Dref = np.matmul(Da, Db) if S.mode == "num" else np.tensordot(Da, Db, axes=((a.ndim - 1,), (0,)))
    lays = La[:-1] + Lb[1:]
    qsum = gs.combine(spec["a"]["sym"], [spec["a"]["charge"], spec["b"]["charge"]])
    c = a @ b
    compare_with_dense(S, "matmul", c, Dref, lays, expect_charge=qsum, preserve_array=False)


def body_trace(S, spec):
    x = build(S, spec["a"])
    D, L = orc.dense_of(x, dtype=S.dtype())
    ref = sum(D[i, i] for i in range(D.shape[0])) if D.shape[0] else 0
    S.equal("trace", x.trace(), ref)
    S.equal("trace-fn", sr.trace(x), ref)


def body_einsum(S, spec):
    x = build(S, spec["a"])
    eq = spec["eq"]
    D, L = orc.dense_of(x, dtype=S.dtype())
    Dref = np.einsum(eq, D)
    lhs, rhs = eq.split("->")
    lays = [L[lhs.index(ch)] for ch in rhs]
    for pa in (False, True):
        c = x.einsum(eq, preserve_array=pa)
        compare_with_dense(S, f"einsum[{int(pa)}]", c, Dref, lays, preserve_array=pa,
                           expect_charge=spec["a"]["charge"] if rhs else None)
    c = sr.einsum(eq, x)
    compare_with_dense(S, "einsum-fn", c, Dref, lays, preserve_array=False,
                       expect_charge=spec["a"]["charge"] if rhs else None)


BODIES = {f.__name__: f for f in (body_tensordot, body_matmul, body_trace, body_einsum)}


# ------------------------------------------------------------------------------------------
# families


def pair_specs(sym, na, nb, tables, free_tables, rng, generic=False, sparsity_threshold=3,
               max_sparsity_pairs=6, axes_forms=True):
    """contractible pairs: b's contracted legs are conjugates of a's"""
    out = []
    ix_opts = [(cm, d) for cm in tables for d in (False, True)]
    free_opts = [(cm, d) for cm in free_tables for d in (False, True)]
    for k in range(0, min(na, nb) + 1):
        for a_ixs in itertools.product(ix_opts, repeat=na):
            for axa in itertools.permutations(range(na), k):
                for axb in itertools.permutations(range(nb), k):
                    free_pos = [i for i in range(nb) if i not in axb]
                    for b_free in itertools.product(free_opts, repeat=len(free_pos)):
                        b_ixs = [None] * nb
                        for i, j in zip(axa, axb):
                            b_ixs[j] = fam.conj_index(a_ixs[i])
                        for p, ixs in zip(free_pos, b_free):
                            b_ixs[p] = ixs
                        out.append((tuple(a_ixs), tuple(b_ixs), axa, axb))
    return out


def expand_pair(sym, struct, rng, generic, sparsity_threshold, max_pairs, modes, complex_=False):
    a_ixs, b_ixs, axa, axb = struct
    cases = []
    for qa in fam.possible_charges(sym, a_ixs):
        sa = fam.sectors_of(sym, a_ixs, qa)
        for qb in fam.possible_charges(sym, b_ixs):
            sb = fam.sectors_of(sym, b_ixs, qb)
            pa, exa = fam.subsets(sa, sparsity_threshold, rng)
            pb, exb = fam.subsets(sb, sparsity_threshold, rng)
            combos = list(itertools.product(pa, pb))
            ex = exa and exb
            if len(combos) > max_pairs:
                # always keep (full, full); thin the rest with the seed
                rest = combos[1:]
                rng.shuffle(rest)
                combos = combos[:1] + rest[: max_pairs - 1]
                ex = False
            for pra, prb in combos:
                A = dict(sym=sym, generic=generic, fermionic=False, indices=a_ixs, charge=qa, present=tuple(pra), name="a")
                B = dict(sym=sym, generic=generic, fermionic=False, indices=b_ixs, charge=qb, present=tuple(prb), name="b")
                cases.append(dict(a=A, b=B, axes=(axa, axb), modes=modes, preserve=(False, True), exhaustive=ex, complex=complex_))
    return cases


def _run(case):
    body = BODIES[case["body"]]
    return run_case(body, case["spec"], complex_=case.get("complex", False), validate=case.get("validate", False),
                    want_sample=case.get("sample", False), seed=case.get("seed", 0))


def build_family(tier, seed):
    rng = random.Random(seed)
    groups = {}
    thorough = tier == "thorough"
    syms = [("Z2", False), ("U1", False), ("Z2Z2", False), ("U1U1", False), ("Z4", True), ("Z2", True)]
    for sym, generic in syms:
        tabs = fam.index_tables(sym, 2, ("ones", "graded"))
        # keep the table list small: the two-charge graded tables + single-charge tables
        two = [t for t in tabs if len(t) == 2 and t[0][1] != t[1][1]]
        one = [t for t in tabs if len(t) == 1]
        if sym in ("Z2Z2", "U1U1", "Z4"):
            two = two[:3] if not thorough else two
            one = one[:2]
        if sym == "U1" and not thorough:
            two = two[:3]
        tables = two + one[:2]
        free_tables = two[:1] + one[:1]
        shapes = [(1, 1), (2, 1), (1, 2), (2, 2)]
        big = [(3, 2), (2, 3), (3, 3)] if sym in ("Z2", "U1") else [(3, 2)]
        cases = []
        exhaustive = True
        for na, nb in shapes:
            structs = pair_specs(sym, na, nb, tables, free_tables, rng)
            lim = None if (sym in ("Z2", "U1") and not generic) else 150
            structs, ex = fam.thin(structs, lim if not thorough else (None if lim is None else 1500), seed)
            exhaustive &= ex
            for st in structs:
                cs = expand_pair(sym, st, rng, generic, 3, 6 if not thorough else 20, ("blockwise", "fused", "auto"))
                cases += cs
        for na, nb in big:
            structs = pair_specs(sym, na, nb, two[:2] + one[:1], two[:1], rng)
            structs, ex = fam.thin(structs, 250 if not thorough else 4000, seed + na * 10 + nb)
            exhaustive = False if not ex else exhaustive
            for st in structs:
                cases += expand_pair(sym, st, rng, generic, 3, 3 if not thorough else 8, ("blockwise", "fused"))
        if sym in ("Z2", "U1") and not generic:
            # rank-4 x rank-3 over two pairs, single-missing sparsity patterns
            structs = fam.pair_structs(sym, 4, 3, two[:1], two[:1], ks=(2,))
            structs, _ = fam.thin(structs, 80 if not thorough else 800, seed + 431)
            r4 = []
            for st in structs:
                for A, B, axes, ex2 in fam.expand_pair(sym, st, rng, generic=generic, fermionic=False, max_pairs=5, sparsity_threshold=2):
                    r4.append(dict(a=A, b=B, axes=axes, modes=("blockwise", "fused"), preserve=(True,), exhaustive=False, complex=False))
            r4, _ = fam.thin(r4, 1500 if not thorough else 15000, seed + 5)
            groups[f"tensordot-rank4/{sym}"] = ([dict(body="body_tensordot", spec=c, seed=seed + i) for i, c in enumerate(r4)], False)
        cases, ex = fam.thin(cases, 6000 if not thorough else 60000, seed)
        exhaustive &= ex
        name = f"tensordot/{sym}{'-generic' if generic else ''}"
        groups[name] = ([dict(body="body_tensordot", spec=c, validate=(i % 40 == 0), sample=(i % 500 == 0), seed=seed + i)
                         for i, c in enumerate(cases)], exhaustive and all(c["exhaustive"] for c in cases))
    # outer products with a rank-0 array (as returned by a full contraction with preserve_array=True), in both operand orders
    for sym, generic in syms:
        tabs = fam.index_tables(sym, 2, ("graded",))
        two = [t for t in tabs if len(t) == 2][:2]
        r0 = []
        zero = gs.identity(sym)
        scal = dict(sym=sym, generic=generic, fermionic=False, indices=(), charge=zero, present=((),), phases=(), oddpos=None, name="s")
        for nd in (1, 2, 3):
            arrs = list(fam.array_specs(sym, nd, two, generic=generic, sparsity_threshold=3, rng=rng))
            arrs, _ = fam.thin(arrs, 25 if not thorough else 250, seed + 77 + nd)
            for k, a in enumerate(arrs):
                for order in ("as", "sa"):
                    A, B = (dict(a, name="a"), dict(scal, name="b")) if order == "as" else (dict(scal, name="a"), dict(a, name="b"))
                    r0.append(dict(a=A, b=B, axes=(0 if k % 2 else ((), ())), modes=("blockwise", "fused", "auto"), preserve=(True, False), exhaustive=False, complex=False))
        groups[f"tensordot-rank0-outer/{sym}{'-generic' if generic else ''}"] = ([dict(body="body_tensordot", spec=c, seed=seed + i) for i, c in enumerate(r0)], False)
    # complex entries, int / negative axes, autoray route: a thinner slice of the Z2/U1 family
    for sym in ("Z2", "U1"):
        tabs = fam.index_tables(sym, 2, ("graded",))
        two = [t for t in tabs if len(t) == 2][:2]
        cases = []
        for na, nb in [(2, 2), (2, 1), (3, 2)]:
            structs = pair_specs(sym, na, nb, two + [tabs[0]], two[:1], rng)
            structs, _ = fam.thin(structs, 120 if not thorough else 1200, seed + 5)
            for st in structs:
                for c in expand_pair(sym, st, rng, False, 3, 3, ("blockwise", "fused"), complex_=True):
                    cases.append(c)
        cases, _ = fam.thin(cases, 1200 if not thorough else 12000, seed + 7)
        # re-express some axes in int / negative form and route through autoray
        for i, c in enumerate(cases):
            axa, axb = c["axes"]
            na, nb = len(c["a"]["indices"]), len(c["b"]["indices"])
            if i % 3 == 0:
                c["axes"] = (tuple(x - na for x in axa), tuple(x - nb for x in axb))
            if i % 3 == 1 and axa == tuple(range(na - len(axa), na)) and axb == tuple(range(len(axb))):
                c["axes"] = len(axa)
            if i % 2 == 0:
                c["how"] = "ar"
        groups[f"tensordot-complex-axesforms/{sym}"] = (
            [dict(body="body_tensordot", spec=c, complex=True, validate=(i % 40 == 0), sample=(i % 400 == 0), seed=seed + i)
             for i, c in enumerate(cases)], False)
    # matmul / trace / einsum
    for sym in ("Z2", "U1", "Z2Z2", "U1U1"):
        tabs = fam.index_tables(sym, 2, ("ones", "graded"))
        two = [t for t in tabs if len(t) == 2 and t[0][1] != t[1][1]][:3]
        one = [t for t in tabs if len(t) == 1][:2]
        tables = two + one
        mm = []
        for na, nb in [(2, 2), (2, 1), (1, 2), (1, 1)]:
            ix_opts = [(cm, d) for cm in tables for d in (False, True)]
            for a_ixs in itertools.product(ix_opts, repeat=na):
                for b_rest in itertools.product(ix_opts[:4], repeat=nb - 1):
                    b_ixs = (fam.conj_index(a_ixs[-1]),) + tuple(b_rest)
                    st = (tuple(a_ixs), b_ixs, (na - 1,), (0,))
                    for c in expand_pair(sym, st, rng, False, 3, 4, ()):
                        mm.append(c)
        mm, ex = fam.thin(mm, 2500 if not thorough else 25000, seed + 11)
        groups[f"matmul/{sym}"] = ([dict(body="body_matmul", spec=c, validate=(i % 50 == 0), sample=(i % 900 == 0), seed=seed + i)
                                    for i, c in enumerate(mm)], ex)
        tr = []
        for cm in tables:
            for d in (False, True):
                ixs = ((cm, d), (cm, not d))
                for s in fam.array_specs(sym, 2, [cm], sparsity_threshold=4, rng=rng):
                    if s["indices"] == ixs:
                        tr.append(dict(a=s))
        groups[f"trace/{sym}"] = ([dict(body="body_trace", spec=c, validate=(i % 20 == 0), sample=(i % 100 == 0), seed=seed + i)
                                   for i, c in enumerate(tr)], True)
        es = []
        letters = "abcd"
        for nd in (2, 3):
            for ixs in itertools.product([(cm, d) for cm in tables[:3] for d in (False, True)], repeat=nd):
                # outputs: every permutation of every subset where dropped letters are traced pairs
                for eq in einsum_eqs(nd):
                    lhs = eq.split("->")[0]
                    # repeated letters need conjugate index pairs
                    ok = True
                    ixs2 = list(ixs)
                    for ch in set(lhs):
                        pos = [i for i, c in enumerate(lhs) if c == ch]
                        if len(pos) == 2:
                            ixs2[pos[1]] = fam.conj_index(ixs2[pos[0]])
                        elif len(pos) > 2:
                            ok = False
                    if not ok:
                        continue
                    ixs2 = tuple(ixs2)
                    for q in fam.possible_charges(sym, ixs2):
                        secs = fam.sectors_of(sym, ixs2, q)
                        pres, ex = fam.subsets(secs, 3, rng)
                        for p in pres[:4]:
                            es.append(dict(a=dict(sym=sym, generic=False, fermionic=False, indices=ixs2, charge=q,
                                                  present=tuple(p), name="a"), eq=eq))
        es = list({repr(e): e for e in es}.values())
        es, ex = fam.thin(es, 1500 if not thorough else 15000, seed + 13)
        groups[f"einsum/{sym}"] = ([dict(body="body_einsum", spec=c, validate=(i % 50 == 0), sample=(i % 700 == 0), seed=seed + i)
                                    for i, c in enumerate(es)], ex)
    return groups


def einsum_eqs(nd):
    """single-term equations the library supports: permutations, and traces of one repeated pair"""
    letters = "abc"[:nd]
    eqs = []
    for p in itertools.permutations(letters):
        eqs.append(letters + "->" + "".join(p))
    if nd == 2:
        eqs.append("aa->")
    if nd == 3:
        for lhs in ("aab", "aba", "baa"):
            eqs.append(lhs + "->b")
    return eqs


def run(tier, seed, only=None):
    rep = Report(PID, tier, seed)
    rep.explanation = (
        "Bounded symbolic checking: for every enumerated operand structure the real symmray+numpy code is executed "
        "on blocks whose entries are z3 real (or complex = pairs of real) terms; each coordinate of the result must "
        "equal the polynomial numpy's own tensordot/einsum/trace computes on the independently densified operands; "
        "z3 decides the identities for all values (unsat of the negation). Structure is enumerated, data is solver-quantified.")
    rep.rule = ("case = (operand index tables, duals, charges, present sectors, axes, modes); non-trivial = at least one "
                "non-syntactic obligation was generated; distinct by construction of the enumerator")
    rep.functions = ["symmray.tensordot -> tensordot_abelian -> _tensordot_blockwise/_tensordot_via_fused (+fuse/unfuse/drop_misaligned_sectors)",
                     "AbelianArray.__matmul__", "AbelianArray.trace", "AbelianArray.einsum", "autoray.do('tensordot')"]
    rep.bounds = {"operand_rank": "<=3 (pairs up to 3x3)", "charges_per_index": "<=2", "block_sizes": "1..2",
                  "symmetries": "Z2,U1,Z2Z2,U1U1 static; Z2,Z4 generic", "modes": "blockwise,fused,auto", "dtype": "real and complex terms"}
    rep.outside = ["ranks > 3, >2 charges per index, block sizes > 2", "floating-point rounding (reals for floats)", "non-numpy backends"]
    groups = build_family(tier, seed)
    for name, (cases, ex) in groups.items():
        if only and only not in name:
            continue
        results = pmap(_run, cases)
        rep.add_cases(name, results, exhaustive=ex)
    return rep.finish()
