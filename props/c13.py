"""C13 — truncated SVD keeps exactly what its cutoff and bond limit prescribe (engine B with forking + engine A)."""
import itertools
import os
import random

import numpy as np

from vlib import env  # noqa
import symmray as sr
import autoray as ar

from vlib import families as fam
from vlib import oracle as orc
from vlib import stubs
from vlib import sym as gs
from vlib import xh
from vlib import zt
from vlib.build import build
from vlib.driver import Report
from vlib.par import pmap, run_groups
from vlib.session import run_case, Violation

PID = "C13"


def _re(v):
    return zt.parts(v)[0]


def keep_spec(S, v, allv, mode, cut, max_bond):
    """independent statement of the six rules, evaluated on the same terms.
    -> z3 formula (sym) / bool (num) saying whether value v is kept.  Assumes pairwise distinct values."""
    sym = S.mode == "sym"
    import z3

    def ge(a, b):
        return (_re(a) >= _re(b)) if sym else (a >= b - 1e-15)

    def gt(a, b):
        return (_re(a) > _re(b)) if sym else (a > b)

    def ite_sum(terms):
        tot = 0
        for cond, val in terms:
            if sym:
                tot = tot + zt.Z(z3.If(cond, _re(val), z3.RealVal(0)))
            else:
                tot = tot + (val if cond else 0)
        return tot

    conds = []
    if cut is not None:
        if mode == 1:
            conds.append(ge(v, cut))
        elif mode == 2:
            # relative to the largest value: v >= cut * max  <=>  for the maximal element m: v >= cut*m
            big = [(z3.And(*[_re(m) >= _re(u) for u in allv]) if sym else all(m >= u for u in allv), m) for m in allv]
            if sym:
                conds.append(z3.And(*[z3.Implies(c, _re(v) >= _re(cut * m)) for c, m in big]))
            else:
                conds.append(v >= cut * max(allv) - 1e-15)
        else:
            p = {3: 2, 4: 2, 5: 1, 6: 1}[mode]
            pw = (lambda u: u * u) if p == 2 else (lambda u: u)
            below = ite_sum([((_re(u) <= _re(v)) if sym else (u <= v), pw(u)) for u in allv])  # cumulative weight up to and including v
            total = 0
            for u in allv:
                total = total + pw(u)
            thr = cut * total if mode in (4, 6) else cut
            conds.append(ge(below, thr))
    if max_bond is not None and 0 < max_bond < len(allv):
        # at most max_bond values: v is among the max_bond largest  <=>  fewer than max_bond values are larger
        if sym:
            nbigger = sum([z3.If(_re(u) > _re(v), 1, 0) for u in allv])
            conds.append(nbigger < max_bond)
        else:
            conds.append(sum(1 for u in allv if u > v) < max_bond)
    if sym:
        return z3.And(*conds) if conds else z3.BoolVal(True)
    return all(conds)


def body_trunc(S, spec):
    stubs.install()
    x = build(S, spec["a"])
    mode, max_bond = spec["mode"], spec["max_bond"]
    use_cut = spec["cutoff"]
    sym = S.mode == "sym"
    cut = None
    if use_cut:
        cut = S.scalar("cut", complex_=False)
        if sym:
            zt.ctl().assume(_re(cut) > 0, "input: cutoff > 0", light=True)
        elif cut <= 0:
            cut = abs(cut) + 0.1
    # reference: the untruncated decomposition the library itself computes (same stub factors by memoisation)
    u0, s0, v0 = sr.linalg.svd(x)
    # ... and that decomposition reproduces x through the library's own contraction (pending fermionic signs included): together with the
    # term-identical slices below and orthonormality this is what makes the squared error equal the discarded squared weight
    try:
        if not spec.get("recon", True):
            raise StopIteration  # (decided once per matrix: it does not depend on the truncation options)
        p0 = u0.multiply_diagonal(s0, 1) @ v0
        c0, cx0 = orc.coords(p0), orc.coords(x)
        for k in set(c0) | set(cx0):
            S.equal(f"untruncated:reconstructs@{k}", c0.get(k, 0), cx0.get(k, 0))
    except StopIteration:
        pass
    except Violation as v:
        S.structural.append((v.name, v.detail))
    allv = [e for b in s0.blocks.values() for e in b]
    if sym and len(allv) > 1:
        import z3
        zt.ctl().assume(z3.And(*[_re(a) != _re(b) for a, b in itertools.combinations(allv, 2)]), "input: singular values pairwise distinct", light=True)
        zt.ctl().assume(z3.And(*[_re(a) > 0 for a in allv]), "input: singular values positive", light=True)
    # known finding: a cumulative cutoff beyond the total weight keeps everything (sall[-0] wraps around). The situation is
    # made a branch of its own so that exactly those paths are labelled.
    pre = ""
    if use_cut and mode in (3, 4, 5, 6):
        p_ = {3: 2, 4: 2, 5: 1, 6: 1}[mode]
        total = 0
        for u in allv:
            total = total + (u * u if p_ == 2 else u)
        thr = cut * total if mode in (4, 6) else cut
        if thr > total:
            pre = "beyond-total:"
    kw = dict(cutoff=cut if use_cut else -1.0, cutoff_mode=mode, max_bond=max_bond)
    U, s, VH = sr.linalg.svd_truncated(x, absorb=None, **kw)
    probs = orc.audit(U) + orc.audit(VH) + orc.audit_vector(s)
    S.require("valid", not probs, "; ".join(probs[:2]))
    # bond tables match blocks, on both factors, also when whole charges disappeared
    bl, br = dict(U.indices[1].chargemap), dict(VH.indices[0].chargemap)
    want = {c: len(b) for c, b in s.blocks.items()}
    S.require("bond-table", bl == dict(sorted(want.items())) and br == bl, f"bond tables {bl}/{br} but kept values per charge {want}")
    S.require("bond-directions", U.indices[1].dual != VH.indices[0].dual, "bond directions")
    S.require("blocks-vs-bond", all(np.shape(b)[1] == want[sec[1]] for sec, b in U.blocks.items()) and all(np.shape(b)[0] == want[sec[0]] for sec, b in VH.blocks.items())
              and {sec[1] for sec in U.blocks} == set(want) and {sec[0] for sec in VH.blocks} == set(want), "factor blocks do not match the bond table")
    kept_total = sum(want.values())
    # per sector: the kept values are the first (largest) ones, term-identical to the untruncated factors
    for sec, B in u0.blocks.items():
        c = sec[1]
        full = list(s0.blocks[c])
        n = want.get(c, 0)
        for i in range(n):
            S.equal(f"kept-value[{c}][{i}]", s.blocks[c][i], full[i])
        if n:
            S.equal_arrays(f"U-slice{sec}", U.blocks[sec], np.asarray(B, dtype=S.dtype())[:, :n])
            S.equal_arrays(f"VH-slice{sec}", VH.blocks[(c, c)], np.asarray(v0.blocks[(c, c)], dtype=S.dtype())[:n, :])
        if use_cut:
            for i, v in enumerate(full):
                k = keep_spec(S, v, allv, mode, cut, max_bond if max_bond > 0 else None)
                if sym:
                    S.holds(f"{pre}rule[{c}][{i}] kept={i < n}", k if i < n else __import__("z3").Not(k))
                else:
                    S.holds(f"{pre}rule[{c}][{i}] kept={i < n}", bool(k) == (i < n))
        # every kept value >= every discarded one
        for i in range(n):
            for c2, b2 in s0.blocks.items():
                if not use_cut and c2 != c:
                    continue  # without a cutoff the limit is split across charges: ordering is promised within a charge only
                n2 = want.get(c2, 0)
                for j in range(n2, len(b2)):
                    if sym:
                        S.holds(f"{pre}kept>=discarded[{c}][{i}] vs [{c2}][{j}]", _re(full[i]) >= _re(b2[j]))
                    else:
                        S.holds(f"{pre}kept>=discarded[{c}][{i}] vs [{c2}][{j}]", full[i] >= b2[j] - 1e-12)
    if not use_cut:
        tot = len(allv)
        S.require("no-cutoff:count", kept_total == (tot if max_bond < 0 else min(max_bond, tot)), f"kept {kept_total} of {tot} with max_bond {max_bond}")
    # all three ways of absorbing give the same product (through the library's own contraction)
    prod = U.multiply_diagonal(s, 1) @ VH if kept_total else None
    for ab in spec["absorbs"]:
        Ua, sa, Va = sr.linalg.svd_truncated(x, absorb=ab, **kw)
        S.require(f"absorb[{ab}]:returns-no-values", sa is None, "singular values returned although absorbed")
        probs = orc.audit(Ua) + orc.audit(Va)
        S.require(f"absorb[{ab}]:valid", not probs, "; ".join(probs[:2]))
        if kept_total:
            p2 = Ua @ Va
            c1, c2 = orc.coords(prod), orc.coords(p2)
            for k in set(c1) | set(c2):
                S.equal(f"absorb[{ab}]@{k}", c2.get(k, 0), c1.get(k, 0))
    # monotonicity in the cutoff
    if use_cut and spec.get("mono"):
        cut2 = S.scalar("cut2", complex_=False)
        if sym:
            zt.ctl().assume(_re(cut2) >= _re(cut), "input: cut2 >= cut", light=True)
        elif cut2 < cut:
            cut2 = cut + abs(cut2)
        pre2 = pre
        if mode in (3, 4, 5, 6):
            thr2 = cut2 * total if mode in (4, 6) else cut2
            if thr2 > total:
                pre2 = "beyond-total:"
        U2, s2, V2 = sr.linalg.svd_truncated(x, absorb=None, cutoff=cut2, cutoff_mode=mode, max_bond=max_bond)
        for c, n in {c: len(b) for c, b in s2.blocks.items()}.items():
            S.require(f"{pre2}monotone[{c}]", n <= want.get(c, 0), f"larger cutoff keeps {n} values of charge {c!r}, smaller cutoff keeps {want.get(c, 0)}")
    if sym and allv:
        S.canary("shifted", allv[0], allv[0] + 1)


def body_split(S, spec):
    """the proportional split of a bond limit across sectors, for a *symbolic integer* limit (all integers at once)"""
    from symmray.linalg import calc_sub_max_bonds
    sizes = spec["sizes"]
    tot = sum(sizes)
    if S.mode == "sym":
        import z3
        mb = zt.int_var("max_bond")
        S.varnames.append("max_bond")
        r = calc_sub_max_bonds.__wrapped__(sizes, mb)
        r = tuple(int(x) for x in r)
        e = zt.parts(mb)[0]
        inside = z3.And(e >= 0, e < tot)
        S.holds("length", len(r) == len(sizes))
        S.holds("range", all(0 <= x <= s for x, s in zip(r, sizes)))
        S.holds("sums-to-limit", z3.Implies(inside, e == sum(r)))
        S.holds("unlimited-keeps-all", z3.Implies(z3.Not(inside), z3.BoolVal(tuple(r) == tuple(sizes))))
    else:
        mb = int(round(S.values.get("max_bond", S.rng.randint(-2, tot + 2))))
        S.values["max_bond"] = mb
        r = tuple(calc_sub_max_bonds.__wrapped__(sizes, mb))
        S.holds("length", len(r) == len(sizes))
        S.holds("range", all(0 <= x <= s for x, s in zip(r, sizes)))
        if 0 <= mb < tot:
            S.holds("sums-to-limit", sum(r) == mb)
        else:
            S.holds("unlimited-keeps-all", tuple(r) == tuple(sizes))


BODIES = {"body_trunc": body_trunc, "body_split": body_split}


def _run(case):
    return run_case(BODIES[case.get("body", "body_trunc")], case["spec"], complex_=False, validate=False, want_sample=case.get("sample", False),
                    seed=case.get("seed", 0), max_paths=1500, wall_limit=120)


def build_family(tier, seed):
    rng = random.Random(seed)
    thorough = tier == "thorough"
    groups = {}
    for sym, generic, fermionic in [("Z2", False, False), ("U1", False, False), ("Z2", False, True), ("U1", False, True)] + ([("U1U1", False, False), ("Z2Z2", False, True)] if thorough else []):
        nm = f"{sym}{'-generic' if generic else ''}{'-fermionic' if fermionic else ''}"
        uni = fam.UNIVERSE[sym]
        tabs = [((uni[0], 1), (uni[1], 2)), ((uni[0], 2), (uni[1], 1)), ((uni[0], 2), (uni[1], 2)), ((uni[0], 2),), ((uni[1], 1),)]
        if sym == "U1":
            tabs.append(((uni[0], 1), (uni[1], 1), (uni[2], 1)))
        mats = []
        for a in fam.array_specs(sym, 2, tabs, fermionic=fermionic, generic=generic, sparsity_threshold=3, phases=fermionic, rng=rng, labels=(3,)):
            nvals = sum(min(dict(a["indices"][0][0])[s[0]], dict(a["indices"][1][0])[s[1]]) for s in a["present"])
            if 1 <= nvals <= (4 if not thorough else 5) and len(a["present"]) <= 3:
                mats.append((a, nvals))
        mats, _ = fam.thin(mats, 22 if not thorough else 60, seed)
        cases = []
        for k, (a, nvals) in enumerate(mats):
            for mode in (1, 2, 3, 4, 5, 6):
                for mb in sorted({-1, 1, max(1, nvals - 1), nvals, nvals + 1}):
                    if (k + mode + mb) % 3 and not thorough:
                        continue
                    cases.append(dict(a=a, mode=mode, max_bond=mb, cutoff=True, absorbs=(-1, 0, 1) if (k + mode) % 2 == 0 else (1,), mono=(k + mb) % 2 == 0, recon=False))
            for mb in sorted({-1, 1, 2, max(1, nvals - 1), nvals, nvals + 1}):
                cases.append(dict(a=a, mode=4, max_bond=mb, cutoff=False, absorbs=(-1, 0, 1), mono=False, recon=(mb == -1)))
        # matrices obtained by fusing a rank-3 array (the column leg carries sub-index bookkeeping; the new bond must not)
        from vlib.session import Session as _Sess
        r3 = list(fam.array_specs(sym, 3, tabs[:2], fermionic=fermionic, generic=generic, sparsity_threshold=3, phases=False, rng=rng, labels=(3,)))
        r3, _ = fam.thin(r3, 40 if not thorough else 400, seed + 3)
        nfused = 0
        for k, a in enumerate(r3):
            a = dict(a, prefuse=(((1, 2),),))
            try:
                xm = build(_Sess("num", rng=random.Random(1)), a)
            except Exception:
                continue
            nvals = sum(min(np.shape(b)) for b in xm.blocks.values())
            if not (2 <= nvals <= (4 if not thorough else 5)) or len(xm.blocks) > 3:
                continue
            nfused += 1
            if nfused > (6 if not thorough else 40):
                break
            for mode, mb, cutf in ((1, -1, True), (4, max(1, nvals - 1), True), (4, 1, False), (2, nvals, True)):
                cases.append(dict(a=a, mode=mode, max_bond=mb, cutoff=cutf, absorbs=(-1, 0, 1) if cutf else (1,), mono=False, recon=(mode == 1)))
        groups[f"truncate/{nm}"] = ([dict(body="body_trunc", spec=c, sample=(i % 150 == 0), seed=seed + i) for i, c in enumerate(cases)], False)
    sp = []
    for n in (1, 2, 3, 4):
        for t in itertools.product(range(1, (5 if n <= 3 else 4)), repeat=n):
            sp.append(dict(sizes=t))
    groups["bond-split-kernel"] = ([dict(body="body_split", spec=c, sample=(i % 100 == 0), seed=seed + i) for i, c in enumerate(sp)], True)
    return groups


def classify(v):
    if str(v.get("name", "")).startswith("beyond-total:"):
        return {"defect": "cumulative-cutoff-beyond-total-weight"}
    return {}


def run(tier, seed, only=None):
    rep = Report(PID, tier, seed)
    stubs.install()
    nval = stubs.validate_contracts(40, seed)
    rep.explanation = (
        "The real svd_truncated runs on symbolic singular values (fresh terms from the SVD contract stub) and a *symbolic cutoff* (one real variable > 0, so "
        "'from 0 up to and beyond the total weight' is one query family, not a grid): the real np.sort, cumsum, comparisons, count_nonzero, negative indexing "
        "and int() execute on terms, every branch is decided by the solver and every feasible path is explored. On each path, against an independent "
        "statement of the six rules evaluated on the same terms: each value is kept iff the rule (intersected with the bond limit) says so; kept values are "
        "the first ones of their sector and term-identical slices of the untruncated factors (so the squared error equals the discarded squared weight by "
        "orthonormality - the trusted step); every kept value >= every discarded one; a second symbolic cutoff cut2 >= cut never keeps more (monotonicity); "
        "with no cutoff the kept count is min(max_bond, total); the three absorb variants give the same product through the library's own contraction; the "
        "truncated factors pass the audit and their bond tables match their blocks also when whole charges disappear. The proportional split kernel calc_sub_max_bonds runs on a symbolic *integer* bond limit (all integers at once) for every size tuple with <=4 sectors: sums to the limit when 0 <= limit < total, keeps everything otherwise, 0 <= r_i <= size_i (CrossHair cannot decide this kernel: int() of a symbolic float).")
    rep.rule = "case = (matrix structure, cutoff mode, bond limit, cutoff present?, absorb options); non-trivial = produced obligations"
    rep.functions = ["symmray.linalg.svd_truncated", "svd", "calc_sub_max_bonds", "numpy sort/cumsum/count_nonzero on terms"]
    rep.bounds = {"singular values": "<=4 in total (5 thorough), <=3 sectors", "cutoff": "symbolic real > 0", "max_bond": "-1, 1, total-1, total, total+1", "modes": "1..6"}
    rep.stubs = stubs.STUB_TEXT
    rep.assumptions = ["singular values pairwise distinct and positive (ties: the threshold rule keeps all tied values and can exceed max_bond - observed, not claimed either way)",
                       "LAPACK contract (validated numerically on %d matrices this run)" % nval, "reals for floats"]
    rep.outside = ["more than 5 singular values", "exact ties", "renorm != 0 (raises NotImplementedError)"]
    groups = build_family(tier, seed)
    run_groups(rep, groups, _run, only)
    return rep.finish(classify)
