"""C19 — edge-wise Hamiltonians add up to the lattice Hamiltonian, each term once (engine A + B)."""
import itertools
import os
import random

import numpy as np

from vlib import env  # noqa
import symmray as sr
from symmray.abelian_core import BlockIndex

from vlib import families as fam
from vlib import oracle as orc
from vlib import sym as gs
from vlib import xh
from vlib import zt
from vlib.fock import Fock
from vlib.driver import Report
from vlib.par import pmap, run_groups
from vlib.session import run_case, Violation
from props.c18 import like_for, leg_address, state_tensor, dsign

PID = "C19"


def body_lattice(S, spec):
    """sum over edges of the two-site arrays applied to a symbolic state == D.H.D applied, H the lattice Hamiltonian"""
    sym = spec["sym"]
    edges = spec["edges"]
    sites = sorted({s for e in edges for s in e}, key=repr)
    n = len(sites)
    pos = {s: k for k, s in enumerate(sites)}
    spinful = spec.get("model") == "spinful"
    if spinful:
        site_modes = [(f"u{k}", f"d{k}") for k in range(n)]
        modes = [m for ud in site_modes for m in ud]
    else:
        site_modes = [(f"m{k}",) for k in range(n)]
        modes = [f"m{k}" for k in range(n)]
    F = Fock(modes)
    like = like_for(S)
    zeros = spec.get("zeros", ())  # coefficients that are the literal 0.0 (impurity-style set-ups: the builders skip such terms)

    def sc(name):
        return 0.0 if name in zeros else S.scalar(name)

    tv = {frozenset(e): sc(f"t{k}") for k, e in enumerate(edges)}
    vv = {frozenset(e): sc(f"V{k}") for k, e in enumerate(edges)}
    mv = {s: sc(f"mu{k}") for k, s in enumerate(sites)}
    kind = spec["kind"]
    if kind == "dict":
        t = {((b, a) if k % 2 else (a, b)): tv[frozenset((a, b))] for k, (a, b) in enumerate(edges)}
        V = {((a, b) if k % 2 else (b, a)): vv[frozenset((a, b))] for k, (a, b) in enumerate(edges)}
        mu = dict(mv)
    elif kind == "callable":
        t = lambda a, b: tv[frozenset((a, b))]
        V = lambda a, b: vv[frozenset((a, b))]
        mu = lambda s: mv[s]
    else:
        t0, V0, m0 = S.scalar("t"), S.scalar("V"), S.scalar("mu")
        t, V, mu = t0, V0, m0
        tv = {k: t0 for k in tv}
        vv = {k: V0 for k in vv}
        mv = {k: m0 for k in mv}
    if S.mode == "sym":
        import z3
        # (the builders skip terms whose coefficient compares equal to 0.0; the all-non-zero branch is explored here)
        for nm in set(S.varnames):
            if nm[0] in "tVm":
                zt.ctl().assume(z3.Real(nm) != 0, "input: coefficients non-zero", light=True)
    if spinful:
        # V plays the role of the on-site U (a node coefficient)
        uv = {s_: sc(f"U{k}") for k, s_ in enumerate(sites)}
        if kind == "dict":
            U = dict(uv)
        elif kind == "callable":
            U = lambda s_: uv[s_]
        else:
            U0 = S.scalar("U")
            U = U0
            uv = {k: U0 for k in uv}
        if S.mode == "sym":
            import z3
            for nm in set(S.varnames):
                if nm[0] == "U":
                    zt.ctl().assume(z3.Real(nm) != 0, "input: coefficients non-zero", light=True)
        terms = sr.ham_fermi_hubbard_from_edges(sym, edges, t=t, U=U, mu=mu, like=like)
        im1 = {"Z2": [0, 1, 1, 0], "U1": [0, 1, 1, 2], "U1U1": [(0, 0), (0, 1), (1, 0), (1, 1)], "Z2Z2": [(0, 0), (0, 1), (1, 0), (1, 1)]}[sym]
        ims = [im1] * n
    else:
        terms = sr.ham_fermi_hubbard_spinless_from_edges(sym, edges, t=t, V=V, mu=mu, like=like)
        ims = [[0, 1]] * n
    S.require("keys", list(terms) == list(edges), f"keys {list(terms)} != edges {list(edges)}")
    psi = state_tensor(S, sym, ims, spec["charge"], ("psi", 0))
    if psi is None:
        return
    if spinful:
        bases = [[(), (d,), (u,), (u, d)] for (u, d) in site_modes]
    else:
        bases = [[(), (m,)] for m in modes]
    nb = len(bases[0])
    addr = [leg_address(im) for im in ims]
    total = {}
    for (a, b), G in terms.items():
        i, j = pos[a], pos[b]
        r = sr.tensordot(G, psi, axes=((2, 3), (i, j)), preserve_array=True)
        order = [i, j] + [k for k in range(n) if k not in (i, j)]
        back = [order.index(k) for k in range(n)]
        r = r.transpose(tuple(back))
        S.require("labels", orc.labels_of(r) == orc.labels_of(psi), "labels changed by applying an even operator")
        for k, v in orc.coords(r).items():
            total[k] = (total[k] + v) if k in total else v
    # lattice Hamiltonian on Fock space
    H = []
    for (a, b) in edges:
        for ma, mb in zip(site_modes[pos[a]], site_modes[pos[b]]):
            H.append((-tv[frozenset((a, b))], [(ma, True), (mb, False)]))
            H.append((-tv[frozenset((a, b))], [(mb, True), (ma, False)]))
        if not spinful:
            ma, mb = site_modes[pos[a]][0], site_modes[pos[b]][0]
            H.append((vv[frozenset((a, b))], [(ma, True), (ma, False), (mb, True), (mb, False)]))
    for s_ in sites:
        for m in site_modes[pos[s_]]:
            H.append((-mv[s_], [(m, True), (m, False)]))
        if spinful:
            u, d = site_modes[pos[s_]]
            H.append((uv[s_], [(u, True), (u, False), (d, True), (d, False)]))
    cpsi = orc.coords(psi)
    want = {}
    for idx_in in itertools.product(range(nb), repeat=n):
        a_in = tuple(addr[s][i] for s, i in enumerate(idx_in))
        if a_in not in cpsi:
            continue
        st_in = [bases[s][idx_in[s]] for s in range(n)]
        ket_in = [(m, True) for st in st_in for m in st]
        for idx_out in itertools.product(range(nb), repeat=n):
            st_out = [bases[s][idx_out[s]] for s in range(n)]
            ket_out = [(m, True) for st in st_out for m in st]
            bra = [(m, False) for m, _ in reversed(ket_out)]
            tot = 0
            for c, ops in H:
                v = F.vev(bra + list(ops) + ket_in)
                if v:
                    tot = tot + (c if v == 1 else -c)
            if isinstance(tot, int) and tot == 0:
                continue
            val = tot * cpsi[a_in]
            if dsign(st_in) * dsign(st_out) == -1:
                val = -val
            a_out = tuple(addr[s][i] for s, i in enumerate(idx_out))
            want[a_out] = (want[a_out] + val) if a_out in want else val
    for k in set(total) | set(want):
        S.equal(f"H.psi@{k}", total.get(k, 0), want.get(k, 0))
    if S.mode == "sym" and cpsi:
        k0 = next(iter(cpsi))
        S.canary("shifted", cpsi[k0], cpsi[k0] + 1)


BODIES = {"body_lattice": body_lattice}


def _run(case):
    return run_case(body_lattice, case["spec"], complex_=False, validate=case.get("validate", False), want_sample=case.get("sample", False),
                    seed=case.get("seed", 0), max_paths=64, wall_limit=120)


def graphs(nsites, labels):
    cand = list(itertools.combinations(range(nsites), 2))
    out = []
    for state in itertools.product((0, 1, 2), repeat=len(cand)):  # absent / listed forward / listed reversed
        edges = []
        for (a, b), st in zip(cand, state):
            if st == 1:
                edges.append((labels[a], labels[b]))
            elif st == 2:
                edges.append((labels[b], labels[a]))
        if edges:
            out.append(tuple(edges))
    return out


def build_family(tier, seed):
    rng = random.Random(seed)
    thorough = tier == "thorough"
    groups = {}
    cases = []
    labelsets = [[0, 1, 2, 3], [(0, 0), (0, 1), (1, 0), (1, 1)], ["a", "b", "c", "d"]]
    for sym in ("Z2", "U1"):
        for ns in (2, 3) + ((4,) if thorough else ()):
            for li, labels in enumerate(labelsets):
                gl = graphs(ns, labels)
                if ns == 4:
                    gl, _ = fam.thin(gl, 120, seed + li)
                for gi, edges in enumerate(gl):
                    # listing order of the edges is also permuted
                    if gi % 3 == 1:
                        edges = tuple(reversed(edges))
                    charges = range(0, 2) if sym == "Z2" else range(0, ns + 1)
                    for q in charges:
                        kind = ("scalar", "dict", "callable")[(gi + q + li) % 3]
                        cases.append(dict(sym=sym, edges=edges, charge=q, kind=kind))
    sf = []
    for sym, charges in (("U1", (1, 2)), ("Z2", (1,)), ("U1U1", ((1, 0), (1, 1)))):
        for ns in (2, 3):
            labels = labelsets[ns % 3]
            gl = graphs(ns, labels)
            if ns == 3:
                gl, _ = fam.thin(gl, 8 if not thorough else 26, seed + 5)
            for gi, edges in enumerate(gl):
                for q in charges:
                    if sym == "Z2" and ns == 3:
                        continue
                    sf.append(dict(sym=sym, edges=edges, charge=q, kind=("dict", "scalar", "callable")[(gi + ns) % 3], model="spinful"))
    # site-/bond-dependent coefficients where some are exactly zero (only meaningful for the dict and callable containers)
    zsf = [dict(c, zeros=z) for k, c in enumerate(sf) if c["kind"] != "scalar" for z in ((("U0",), ("U1", "mu0"))[k % 2],)]
    sf = sf + zsf
    zsl = [dict(c, zeros=(("V0",), ("mu0",), ("t0", "mu1"), ("V0", "mu1"))[k % 4]) for k, c in enumerate(cases) if c["kind"] != "scalar"][::4]
    cases = cases + zsl
    groups["lattice-spinful"] = ([dict(body="body_lattice", spec=c, sample=(i % 30 == 0), seed=seed + i) for i, c in enumerate(sf)], False)
    cases, ex = fam.thin(cases, 900 if not thorough else 6000, seed)
    groups["lattice-spinless"] = ([dict(body="body_lattice", spec=c, validate=(i % 60 == 0), sample=(i % 300 == 0), seed=seed + i) for i, c in enumerate(cases)], ex)
    return groups


def run(tier, seed, only=None):
    rep = Report(PID, tier, seed)
    rep.explanation = (
        "CrossHair: graphs on 4 sites as symbolic 'edge present' / 'edge listed reversed' booleans; the real ham_fermi_hubbard_from_edges and "
        "ham_fermi_hubbard_spinless_from_edges run with the two-site builder replaced by a recorder: one entry per edge keyed as listed, hopping/interaction is "
        "the coefficient specified for that bond in either orientation (scalar, dict keyed either way, callable), U/mu are the two ends' coefficients in the listed "
        "orientation, coordinations are the degrees, so each site's on-site terms total exactly its coefficient (exact rationals); parse_edges_to_site_info: one "
        "index name per bond shared by exactly its two ends with opposite directions (first end after sorting non-dual), coordination = degree, shapes. "
        "Engine B (end to end): for every graph on <=3 sites (4 in thorough) with every listing orientation, the spinless edge terms with symbolic coefficients "
        "are applied by the library's own contraction and fermionic transposes to a symbolic state tensor of every charge and summed; the result must equal the "
        "Fock-space lattice Hamiltonian (each bond once, each site's mu exactly once) applied to it, up to the basis sign convention of C18.")
    rep.rule = "CrossHair condition = (model, fixed first two candidate edges); engine-B case = (graph with orientations and listing order, label family, coefficient container kind, state charge)"
    rep.functions = ["ham_fermi_hubbard_from_edges", "ham_fermi_hubbard_spinless_from_edges", "make_edge_factory", "make_node_factory", "parse_edges_to_site_info",
                     "fermi_hubbard_spinless_local_array (end to end)", "tensordot_fermionic / transpose (end to end)"]
    rep.bounds = {"sites": "4 (engine A), <=3 / 4 thorough (engine B)", "labels": "ints, tuples, strings", "containers": "scalar, dict (either orientation), callable"}
    rep.outside = ["graphs on more than 4 sites", "string labels containing '-' (bond names are formatted 'b{}-{}' and can collide: observed, not covered)", "spinful end-to-end beyond one bond (C18 covers the two-site builder)",
                   "ham_tfim_from_edges / ham_heisenberg_from_edges (need quimb, not installed)"]
    groups = build_family(tier, seed)
    run_groups(rep, groups, _run, only)
    if not only or "xh" in only:
        res, herr = xh.run_all(os.path.join(env.VERIF, "harness", "h_c19.py"), timeout=400 if tier == "quick" else 900)
        rep.add_xh(res)
        rep.harness_errors += herr
        rep.violations += xh.violations_from(res, PID)
    return rep.finish()
