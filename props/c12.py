"""C12 — spectra and solutions equal those of the dense matrix (engine B with LAPACK contract stubs;
decided as algebraic certificates at the level of the *dense* matrix)."""
import itertools
import random

import numpy as np

from vlib import env  # noqa
import symmray as sr

from vlib import families as fam
from vlib import oracle as orc
from vlib import stubs
from vlib import sym as gs
from vlib import zt
from vlib.build import build
from vlib.driver import Report
from vlib.par import pmap, run_groups
from vlib.session import run_case, Violation
from props.c11 import matrix_specs, hermitian, nonneg, geq, _cj

PID = "C12"


def bond_dense(S, vec, layout):
    """concatenate a BlockVector in the (ascending charge) layout of the bond index"""
    out = []
    for c, st, sz in layout:
        S.require("spectrum:key", c in vec.blocks and len(vec.blocks[c]) == sz, f"values for bond charge {c!r} missing or mis-sized")
        out.extend(list(vec.blocks[c]))
    S.require("spectrum:no-extra", set(vec.blocks) == {c for c, _, _ in layout}, "values stored for charges the bond does not have")
    return out


def eye_check(S, name, G):
    n = G.shape[0]
    for i in range(n):
        for j in range(n):
            S.equal(f"{name}[{i},{j}]", G[i, j], 1 if i == j else 0)


def body_svd(S, spec):
    stubs.install()
    x = build(S, spec["a"])
    u, s, vh = sr.linalg.svd(x)
    if not orc.is_fermionic(x):
        Dx, Lx = orc.dense_of(x, dtype=S.dtype())
        Du, Lu = orc.dense_of(u, dtype=S.dtype())
        Dv, Lv = orc.dense_of(vh, dtype=S.dtype())
        S.require("svd:row-layout", Lu[0] == Lx[0] and Lv[1] == Lx[1], "outer legs of the factors are laid out differently from the input")
        S.require("svd:bond-layout", [(c, sz) for c, _, sz in Lu[1]] == [(c, sz) for c, _, sz in Lv[0]], "bond tables of the two factors differ")
        sd = bond_dense(S, s, Lu[1])
        k = len(sd)
        eye_check(S, "svd:Ud^H.Ud", np.conj(Du).T.dot(Du)) if k else None
        eye_check(S, "svd:Vd.Vd^H", Dv.dot(np.conj(Dv).T)) if k else None
        for i, v in enumerate(sd):
            nonneg(S, f"svd:sd[{i}]>=0", v)
        R = (Du * np.asarray(sd, dtype=S.dtype()).reshape((1, -1))).dot(Dv) if k else np.zeros(Dx.shape, dtype=S.dtype())
        S.equal_arrays("svd:Ud.diag(sd).Vd=dense(x)", R, Dx)
    else:
        # singular values are sign-gauge invariant: per-block certificate up to an overall sign of the block
        for sec, B in x.blocks.items():
            U, V = np.asarray(u.blocks[sec], dtype=S.dtype()), np.asarray(vh.blocks[(sec[1], sec[1])], dtype=S.dtype())
            sv = np.asarray(s.blocks[sec[1]], dtype=S.dtype())
            eye_check(S, f"svd:U{sec}^H.U", np.conj(U).T.dot(U))
            eye_check(S, f"svd:V{sec}.V^H", V.dot(np.conj(V).T))
            for i, v in enumerate(sv):
                nonneg(S, f"svd:s{sec}[{i}]>=0", v)
            R = (U * sv.reshape((1, -1))).dot(V)
            B = np.asarray(B, dtype=S.dtype())
            if S.mode == "sym":
                import z3
                plus = z3.And(*[zt.eq_formula(R[i], B[i]) for i in np.ndindex(*B.shape)])
                minus = z3.And(*[zt.eq_formula(R[i], -B[i]) for i in np.ndindex(*B.shape)])
                S.holds(f"svd:U.s.V=+-block{sec}", z3.Or(plus, minus))
            else:
                S.holds(f"svd:U.s.V=+-block{sec}", np.allclose(R, B) or np.allclose(R, -B))
        S.require("svd:one-spectrum-per-block", set(s.blocks) == {sec[1] for sec in x.blocks} and len(s.blocks) == len(x.blocks), "spectrum blocks do not match input blocks")


def body_eigh(S, spec):
    stubs.install()
    x = hermitian(S, spec)
    el, ev = sr.linalg.eigh(x)
    Dx, Lx = orc.dense_of(x, dtype=S.dtype())
    # restrict to stored sectors: rows/cols of charges with a stored block
    Dw, Lw = orc.dense_of(ev, dtype=S.dtype())
    S.require("eigh:layout", Lw == Lx, "eigenvector layout differs from the input's")
    stored = {sec[1] for sec in x.blocks}
    cols = [p for c, st, sz in Lx[1] for p in range(st, st + sz) if c in stored]
    wd = []
    for c, st, sz in Lx[1]:
        if c in stored:
            S.require("eigh:key", c in el.blocks and len(el.blocks[c]) == sz, f"eigenvalues for charge {c!r} missing or mis-sized")
            wd.extend(list(el.blocks[c]))
    S.require("eigh:no-extra", set(el.blocks) == stored, "eigenvalues stored for sectors that are not present")
    if not cols:
        return
    W = Dw[np.ix_(cols, cols)]
    X = Dx[np.ix_(cols, cols)]
    eye_check(S, "eigh:Wd^H.Wd", np.conj(W).T.dot(W))
    S.equal_arrays("eigh:dense(x).Wd=Wd.diag(wd)", X.dot(W), W * np.asarray(wd, dtype=S.dtype()).reshape((1, -1)))
    for i, v in enumerate(wd):
        if S.mode == "sym":
            S.equal(f"eigh:wd[{i}]-real", zt.Z(zt.parts(v)[1]), 0)


def body_eigh_offdiag(S, spec):
    """Hermitian charge-zero matrix whose legs have the same direction: sectors (c, -c); dense Hermitian by construction"""
    stubs.install()
    x = build(S, spec["a"])
    sym = spec["a"]["sym"]
    # make the dense form Hermitian: block(-c, c) := block(c, -c)^H, diagonal sectors (c == -c) symmetrised
    for s_ in list(x.blocks):
        t = (s_[1], s_[0])
        if s_ == t:
            x.blocks[s_] = x.blocks[s_] + np.conj(x.blocks[s_]).T
        elif t in x.blocks and repr(s_) < repr(t):
            x.blocks[t] = np.conj(x.blocks[s_]).T
    try:
        el, ev = sr.linalg.eigh(x)
    except zt.Abort:
        raise
    except Exception:
        S.note("raised:eigh-offdiag")
        return
    Dx, Lx = orc.dense_of(x, dtype=S.dtype())
    Dw, Lw = orc.dense_of(ev, dtype=S.dtype())
    stored_cols = {sec[1] for sec in x.blocks}
    cols = [p for c, st, sz in Lx[1] for p in range(st, st + sz) if c in stored_cols]
    rows = [p for c, st, sz in Lx[0] for p in range(st, st + sz) if c in {sec[0] for sec in x.blocks}]
    wd = []
    for c, st, sz in Lx[1]:
        if c in stored_cols:
            S.require("offdiag:eigh:key", c in el.blocks and len(el.blocks[c]) == sz, f"eigenvalues for charge {c!r} missing or mis-sized")
            wd.extend(list(el.blocks[c]))
    if not cols or len(rows) != len(cols):
        return
    W = Dw[np.ix_(rows, cols)]
    X = Dx[np.ix_(rows, rows)]
    S.equal_arrays("offdiag:eigh:dense(x).Wd=Wd.diag(wd)", X.dot(W), W * np.asarray(wd, dtype=S.dtype()).reshape((1, -1)))


def body_norm(S, spec):
    x = build(S, spec["a"])
    D, L = orc.dense_of(x, dtype=S.dtype())
    tot = 0
    for v in D.reshape(-1):
        tot = tot + v * _cj(v)
    for label, fn in (("method", lambda: x.norm()), ("linalg.norm", lambda: sr.linalg.norm(x))):
        n = fn()
        g = n if S.mode == "num" else zt.as_Z(n)
        S.equal(f"norm[{label}]^2", g * g, tot)
        nonneg(S, f"norm[{label}]>=0", g)
    if S.mode == "sym":
        S.canary("shifted", tot, tot + 1)


def body_solve(S, spec):
    stubs.install()
    a = build(S, spec["a"])
    b = build(S, spec["b"])
    if S.mode == "sym":
        for s_, B in a.blocks.items():
            B = np.asarray(B, dtype=object)
            det = B[0, 0] if B.shape == (1, 1) else B[0, 0] * B[1, 1] - B[0, 1] * B[1, 0]
            zt.ctl().assume(zt.parts(det)[0] != 0, "input: blocks of A are invertible (solve)")
    x = sr.linalg.solve(a, b)
    Da, La = orc.dense_of(a, dtype=S.dtype())
    Db, Lb = orc.dense_of(b, dtype=S.dtype())
    Dx, Lx = orc.dense_of(x, dtype=S.dtype())
    S.require("solve:layout", [(c, sz) for c, _, sz in Lx[0]] == [(c, sz) for c, _, sz in La[1]], "solution index is laid out differently from A's column index")
    S.require("solve:rhs-layout", [(c, sz) for c, _, sz in Lb[0]] == [(c, sz) for c, _, sz in La[0]], "b and A rows differ")
    S.equal_arrays("solve:dense(a).dense(x)=dense(b)", Da.dot(Dx), Db)


BODIES = {f.__name__: f for f in (body_svd, body_eigh, body_norm, body_solve, body_eigh_offdiag)}


def _run(case):
    return run_case(BODIES[case["body"]], case["spec"], complex_=case.get("complex", False), validate=False,
                    want_sample=case.get("sample", False), seed=case.get("seed", 0), max_paths=100, wall_limit=120)


def build_family(tier, seed):
    rng = random.Random(seed)
    thorough = tier == "thorough"
    groups = {}
    for sym, generic, fermionic in [("Z2", False, False), ("U1", False, False), ("Z2Z2", False, False), ("U1U1", False, False), ("Z4", True, False),
                                    ("Z2", False, True), ("U1", False, True)]:
        nm = f"{sym}{'-generic' if generic else ''}{'-fermionic' if fermionic else ''}"
        mats = matrix_specs(sym, generic, fermionic, rng, thorough, 300 if not thorough else 3000)
        groups[f"svd/{nm}"] = ([dict(body="body_svd", spec=dict(a=a), sample=(i % 150 == 0), seed=seed + i) for i, a in enumerate(mats)], False)
        groups[f"svd-complex/{nm}"] = ([dict(body="body_svd", spec=dict(a=a), complex=True, seed=seed + i) for i, a in enumerate(mats[::5])], False)
        groups[f"norm/{nm}"] = ([dict(body="body_norm", spec=dict(a=a), sample=(i % 150 == 0), seed=seed + i) for i, a in enumerate(mats)], False)
        groups[f"norm-complex/{nm}"] = ([dict(body="body_norm", spec=dict(a=a), complex=True, seed=seed + i) for i, a in enumerate(mats[::3])], False)
        mixed = [dict(a, cx=tuple(a["present"][1:])) for a in mats if len(a["present"]) >= 2 and not a.get("prefuse")]
        groups[f"norm-mixed-real-complex/{nm}"] = ([dict(body="body_norm", spec=dict(a=a), seed=seed + i) for i, a in enumerate(mixed[::2])], False)
        # the empty sparsity pattern: no stored block at all (dense form is the zero matrix, norm 0)
        empt = [dict(a, present=(), phases=()) for a in mats[:40] if not a.get("prefuse")]
        groups[f"norm-no-stored-blocks/{nm}"] = ([dict(body="body_norm", spec=dict(a=a), seed=seed + i) for i, a in enumerate(empt)], False)
        if fermionic:
            continue
        two, one = fam.std_tables(sym, thorough, n_two=3, n_one=1)
        uni = fam.UNIVERSE[sym]
        eg = []
        for cmv in two[:3] + one[:1]:
            for d in (False, True):
                ixs = ((cmv, d), (cmv, not d))
                q = gs.identity(sym)
                secs = fam.sectors_of(sym, ixs, q)
                pres, _ = fam.subsets(secs, 3, rng)
                for p in pres:
                    eg.append(dict(sym=sym, generic=generic, fermionic=False, indices=ixs, charge=q, present=tuple(p), phases=(), oddpos=None, name="a"))
        groups[f"eigh/{nm}"] = ([dict(body="body_eigh", spec=dict(a=a), sample=(i % 40 == 0), seed=seed + i) for i, a in enumerate(eg)], False)
        groups[f"eigh-complex/{nm}"] = ([dict(body="body_eigh", spec=dict(a=a), complex=True, seed=seed + i) for i, a in enumerate(eg[::2])], False)
        if sym in ("U1", "U1U1", "Z4"):
            od = []
            cands = {"U1": [-1, 1, 0], "Z4": [1, 3, 0], "U1U1": [(0, 1), (0, -1), (0, 0)]}[sym]
            for sz in (1, 2):
                cmv = tuple(sorted((c, sz) for c in cands))
                for d in (False, True):
                    ixs = ((cmv, d), (cmv, d))
                    q = gs.identity(sym)
                    secs = fam.sectors_of(sym, ixs, q)
                    od.append(dict(sym=sym, generic=generic, fermionic=False, indices=ixs, charge=q, present=tuple(secs), phases=(), oddpos=None, name="a"))
            groups[f"eigh-same-direction-legs/{nm}"] = ([dict(body="body_eigh_offdiag", spec=dict(a=a), seed=seed + i) for i, a in enumerate(od)], False)
        sv = []
        sq_tabs = [((uni[0], 1), (uni[1], 1)), ((uni[0], 2), (uni[1], 2)), ((uni[0], 1), (uni[1], 2)), ((uni[0], 1),), ((uni[1], 2),)]
        for cmv in sq_tabs:
            for d0, d1 in itertools.product((False, True), repeat=2):
                ixs = ((cmv, d0), (cmv, d1))
                for qa in fam.possible_charges(sym, ixs):
                    secs = [s for s in fam.sectors_of(sym, ixs, qa) if dict(cmv)[s[0]] == dict(cmv)[s[1]]]
                    # dense A invertible: every row charge and every column charge is hit by exactly one stored (invertible) block
                    rows, cols = [s[0] for s in secs], [s[1] for s in secs]
                    allc = [c for c, _ in cmv]
                    if sorted(rows) != sorted(allc) or sorted(cols) != sorted(allc):
                        continue
                    A = dict(sym=sym, generic=generic, fermionic=False, indices=ixs, charge=qa, present=tuple(secs), phases=(), oddpos=None, name="a")
                    bix = ((cmv, d0),)
                    for qb in fam.possible_charges(sym, bix):
                        bs = fam.sectors_of(sym, bix, qb)
                        pb, _ = fam.subsets(bs, 3, rng)
                        for p in pb:
                            sv.append(dict(a=A, b=dict(sym=sym, generic=generic, fermionic=False, indices=bix, charge=qb, present=tuple(p), phases=(), oddpos=None, name="b")))
        groups[f"solve/{nm}"] = ([dict(body="body_solve", spec=c, sample=(i % 60 == 0), seed=seed + i) for i, c in enumerate(sv)], False)
        groups[f"solve-complex/{nm}"] = ([dict(body="body_solve", spec=c, complex=True, seed=seed + i) for i, c in enumerate(sv[::2])], False)
        # mixed element types: real matrix with a complex right-hand side (the imaginary part of b must reach the solution), and the reverse
        mx = []
        for k, c in enumerate(sv):
            if k % 2 == 0:
                mx.append(dict(a=dict(c["a"], cx=()), b=dict(c["b"], cx=tuple(c["b"]["present"]))))
            else:
                mx.append(dict(a=dict(c["a"], cx=tuple(c["a"]["present"])), b=dict(c["b"], cx=())))
        groups[f"solve-mixed-real-complex/{nm}"] = ([dict(body="body_solve", spec=c, complex=False, seed=seed + i) for i, c in enumerate(mx)], False)
    return groups


def classify(v):
    if str(v.get("name", "")).startswith("offdiag:") or str(v.get("group", "")).startswith("eigh-same-direction-legs"):
        return {"defect": "eigh-off-diagonal-sectors"}
    return {}


def run(tier, seed, only=None):
    rep = Report(PID, tier, seed)
    stubs.install()
    nval = stubs.validate_contracts(40, seed)
    rep.explanation = (
        "Eigen/singular values of a symbolic matrix are not terms, so the claim is decided as an algebraic certificate under the LAPACK contract stubs: with "
        "Ud, Vd, sd the *dense* forms of the returned factors (blocks placed by the independent oracle, values concatenated in the bond layout) z3 shows "
        "Ud^H Ud = I, Vd Vd^H = I, sd >= 0 and Ud diag(sd) Vd = dense(x); for eigh Wd^H Wd = I and dense(x) Wd = Wd diag(wd) on the stored sectors with real "
        "wd; for solve dense(a) dense(x) = dense(b) with dense(a) invertible by construction; norm^2 = sum |dense entries|^2 and norm >= 0. The final step "
        "(a factorisation with orthonormal factors and non-negative diagonal is a singular value decomposition, hence sd is the multiset of non-zero singular "
        "values; likewise for eigenvalues and the unique solution) is the textbook uniqueness theorem and is trusted. Values assigned to the wrong charge, a "
        "dropped block or double counting break the certificate. Fermionic matrices: per-block certificate up to the sign gauge, and the norm.")
    rep.rule = "case = (matrix structure incl. sparsity, direct/fused); non-trivial = produced obligations"
    rep.functions = ["symmray.linalg.svd/eigh/solve/norm", "BlockBase.norm", "the bond/eigenvalue BlockVector keying"]
    rep.bounds = {"block shapes": "<= 2x2 per sector", "sectors": "<=4", "dtype": "real and complex terms; mixed real/complex blocks for norm"}
    rep.stubs = stubs.STUB_TEXT
    rep.trusted.append("uniqueness of singular values / eigenvalues / solutions given the certificate (unmechanised textbook theorem)")
    rep.assumptions = ["LAPACK satisfies its documented contract (validated numerically on %d random matrices this run)" % nval, "blocks of A invertible for solve"]
    rep.outside = ["blocks larger than 2x2", "rounding", "fermionic eigenvalues / solutions (sign-gauge dependent)"]
    groups = build_family(tier, seed)
    run_groups(rep, groups, _run, only)
    return rep.finish(classify)
