"""C08 — structural, elementwise and arithmetic operations commute with densification (engine B)."""
import itertools
import random

import numpy as np

from vlib import env  # noqa
import symmray as sr
import autoray as ar

from vlib import families as fam
from vlib import oracle as orc
from vlib import sym as gs
from vlib.build import build, build_vector
from vlib.driver import Report
from vlib.par import pmap, run_groups
from vlib.session import run_case, Violation
from vlib import zt

PID = "C08"


def full_coords(S, x):
    """charge-addressed coordinates of the *dense* form of x (implicit zeros included)"""
    D, L = orc.dense_of(x, dtype=S.dtype())
    return orc.dense_coords(D, L)


def expect_coords(S, name, got, ref):
    """library array `got` must hold exactly `ref` ({address: value}); absent = zero"""
    S.require(name + ":type", isinstance(got, sr.AbelianArray), f"result type {type(got).__name__}")
    probs = orc.audit(got)
    S.require(name + ":valid", not probs, "; ".join(probs[:2]))
    g = orc.coords(got)
    extra = [k for k in g if k not in ref]
    S.require(name + ":extra", not extra, f"stored entries outside the dense reference: {extra[:2]}")
    for k, r in ref.items():
        S.equal(f"{name}@{k}", g.get(k, 0), r)


def routes(S, name, fns):
    """all call routes must agree: all raise, or all return the same value; -> value or None"""
    outs = []
    for label, fn in fns:
        try:
            outs.append((label, "val", fn()))
        except zt.Abort:
            raise
        except Exception as e:  # "either does this or raises"
            outs.append((label, "raise", f"{type(e).__name__}: {e}"))
    kinds = {k for _, k, _ in outs}
    S.require(name + ":routes-agree", len(kinds) == 1,
              "routes disagree: " + "; ".join(f"{l}:{k}:{str(v)[:60]}" for l, k, v in outs))
    if kinds == {"raise"}:
        S.note(f"raised:{name}:{outs[0][2][:40]}")
        return None, []
    return outs[0][2], [v for _, _, v in outs[1:]]


def _same(S, name, a, b):
    """two library results from different routes hold identical terms"""
    if isinstance(a, sr.AbelianArray) or isinstance(b, sr.AbelianArray):
        S.require(name + ":kind", isinstance(a, sr.AbelianArray) and isinstance(b, sr.AbelianArray), "kinds differ")
        ca, cb = orc.coords(a), orc.coords(b)
        S.require(name + ":keys", set(ca) == set(cb), "stored coordinates differ between routes")
        for k in ca:
            S.equal(f"{name}@{k}", ca[k], cb[k])
    elif isinstance(a, sr.BlockVector) or isinstance(b, sr.BlockVector):
        S.require(name + ":kind", isinstance(a, sr.BlockVector) and isinstance(b, sr.BlockVector), "kinds differ")
        S.require(name + ":keys", set(a.blocks) == set(b.blocks), "blocks differ between routes")
        for k in a.blocks:
            S.equal_arrays(f"{name}@{k}", a.blocks[k], b.blocks[k])
    else:
        S.equal(name, a, b)


def _conj(v):
    return v.conjugate() if hasattr(v, "conjugate") else v


def body_unary(S, spec):
    x = build(S, spec["a"])
    sym = spec["a"]["sym"]
    op = spec["op"]
    ref0 = full_coords(S, x)
    nd = x.ndim
    if op == "transpose":
        p = spec["perm"]
        pp = tuple(range(nd - 1, -1, -1)) if p is None else tuple(a % nd for a in p)
        ref = {tuple(k[i] for i in pp): v for k, v in ref0.items()}
        fns = [("method", lambda: x.transpose(p)), ("fn", lambda: sr.transpose(x, p)),
               ("ar", lambda: ar.do("transpose", x, p))]
        if p is None:
            fns.append(("T", lambda: x.T))
    elif op == "conj":
        ref = {k: _conj(v) for k, v in ref0.items()}
        fns = [("method", lambda: x.conj()), ("fn", lambda: sr.conj(x)), ("ar", lambda: ar.do("conj", x))]
    elif op == "dagger":
        ref = {tuple(reversed(k)): _conj(v) for k, v in ref0.items()}
        fns = [("method", lambda: x.dagger()), ("H", lambda: x.H)]
    elif op == "squeeze":
        axis = spec["axis"]
        if axis is None:
            rm = [i for i, ix in enumerate(x.indices) if sum(ix.chargemap.values()) == 1]
        else:
            rm = [a % nd for a in ((axis,) if isinstance(axis, int) else axis)]
        ref = {tuple(e for i, e in enumerate(k) if i not in rm): v for k, v in ref0.items()}
        if axis is None:
            fns = [("method", lambda: x.squeeze()), ("fn", lambda: sr.squeeze(x)), ("ar", lambda: ar.do("squeeze", x))]
        else:
            fns = [("method", lambda: x.squeeze(axis)), ("fn", lambda: sr.squeeze(x, axis)),
                   ("ar", lambda: ar.do("squeeze", x, axis))]
    elif op == "expand_dims":
        axis, c, dual = spec["axis"], spec["c"], spec["dual"]
        pos = axis if axis >= 0 else axis + nd + 1
        cc = gs.identity(sym) if c is None else c
        ref = {k[:pos] + ((cc, 0),) + k[pos:]: v for k, v in ref0.items()}
        if c is None and dual is None:
            fns = [("method", lambda: x.expand_dims(axis)), ("fn", lambda: sr.expand_dims(x, axis)),
                   ("ar", lambda: ar.do("expand_dims", x, axis))]
        else:
            fns = [("method", lambda: x.expand_dims(axis, c=c, dual=dual))]
    elif op in ("mul_scalar", "rmul_scalar", "div_scalar", "neg"):
        s = S.scalar("s")
        if op == "neg":
            ref = {k: -v for k, v in ref0.items()}
            fns = [("op", lambda: -x)]
        elif op == "div_scalar":
            ref = {k: v / s for k, v in ref0.items()}
            fns = [("op", lambda: x / s)]
        else:
            ref = {k: v * s for k, v in ref0.items()}
            fns = [("op", (lambda: x * s) if op == "mul_scalar" else (lambda: s * x))]
    elif op == "abs":
        ref = {k: abs(v) for k, v in ref0.items()}
        fns = [("method", lambda: x.abs()), ("fn", lambda: sr.abs(x)), ("ar", lambda: ar.do("abs", x))]
    elif op in ("sum", "norm"):
        if op == "sum":
            want = 0
            for v in ref0.values():
                want = want + v
            fns = [("method", lambda: x.sum()), ("fn", lambda: sr.sum(x)), ("ar", lambda: ar.do("sum", x))]
        else:
            want2 = 0
            for v in ref0.values():
                want2 = want2 + (v * _conj(v))
            fns = [("method", lambda: x.norm())]
        got, others = routes(S, op, fns)
        if got is None:
            return
        for i, o in enumerate(others):
            _same(S, f"{op}:route{i}", got, o)
        if op == "sum":
            S.equal("sum", got, want)
        else:
            g = got if S.mode == "num" else zt.as_Z(got)
            S.equal("norm^2", g * g, want2)
            if S.mode == "sym":
                S.holds("norm>=0", zt.parts(g)[0] >= 0)
            else:
                S.holds("norm>=0", complex(g).real >= 0)
        return
    else:
        raise ValueError(op)
    got, others = routes(S, op, fns)
    if got is None:
        S.note("raised")
        return
    expect_coords(S, op, got, ref)
    for i, o in enumerate(others):
        _same(S, f"{op}:route{i}", got, o)
    if S.mode == "sym" and ref:
        k0 = next(iter(ref))
        S.canary("shifted", ref[k0], ref[k0] + 1)


def body_binary(S, spec):
    x = build(S, spec["a"])
    y = build(S, spec["b"])
    op = spec["op"]
    rx, ry = full_coords(S, x), full_coords(S, y)
    f = {"add": lambda a, b: a + b, "sub": lambda a, b: a - b, "mul": lambda a, b: a * b}[op]
    ref = {k: f(rx[k], ry[k]) for k in rx}
    try:
        got = f(x, y)
    except zt.Abort:
        raise
    except Exception as e:
        S.note(f"raised:{op}:{type(e).__name__}")
        return
    expect_coords(S, op, got, ref)
    if S.mode == "sym" and ref:
        k0 = next(iter(ref))
        S.canary("shifted", ref[k0], ref[k0] + 1)


def body_muldiag(S, spec):
    x = build(S, spec["a"])
    axis = spec["axis"]
    ax = axis % x.ndim
    cm = spec["a"]["indices"][ax][0]
    v = build_vector(S, "v", [(c, d) for c, d in cm if c in spec["vcharges"]])
    ref0 = full_coords(S, x)
    ref = {}
    for k, val in ref0.items():
        c, o = k[ax]
        ref[k] = val * v.blocks[c][o] if c in v.blocks else 0
    fns = [("method", lambda: x.multiply_diagonal(v, axis)), ("fn", lambda: sr.multiply_diagonal(x, v, axis)),
           ("ar", lambda: ar.do("multiply_diagonal", x, v, axis))]
    got, others = routes(S, "muldiag", fns)
    if got is None:
        return
    expect_coords(S, "muldiag", got, ref)
    for i, o in enumerate(others):
        _same(S, f"muldiag:route{i}", got, o)


def body_vector(S, spec):
    """block vectors: dense form = concatenation of blocks in ascending key order (no implicit zeros)"""
    cm = spec["cm"]
    v = build_vector(S, "v", cm)
    w = build_vector(S, "w", cm)
    s = S.scalar("s")
    op = spec["op"]

    def dense(vec):
        S.require(op + ":type", isinstance(vec, sr.BlockVector), f"type {type(vec).__name__}")
        S.require(op + ":keys", list(sorted(vec.blocks)) == [c for c, _ in cm], f"keys {list(vec.blocks)}")
        return np.concatenate([np.asarray(vec.blocks[k], dtype=S.dtype()) for k in sorted(vec.blocks)])

    dv = np.concatenate([np.asarray(v.blocks[c], dtype=S.dtype()) for c, _ in cm])
    dw = np.concatenate([np.asarray(w.blocks[c], dtype=S.dtype()) for c, _ in cm])
    table = {
        "add_vv": (lambda: v + w, lambda: dv + dw), "sub_vv": (lambda: v - w, lambda: dv - dw),
        "mul_vv": (lambda: v * w, lambda: dv * dw), "div_vv": (lambda: v / w, lambda: dv / dw),
        "add_vs": (lambda: v + s, lambda: dv + s), "radd_vs": (lambda: s + v, lambda: s + dv),
        "sub_vs": (lambda: v - s, lambda: dv - s), "rsub_vs": (lambda: s - v, lambda: s - dv),
        "mul_vs": (lambda: v * s, lambda: dv * s), "rmul_vs": (lambda: s * v, lambda: s * dv),
        "div_vs": (lambda: v / s, lambda: dv / s), "rdiv_vs": (lambda: s / v, lambda: s / dv),
        "pow_v2": (lambda: v ** 2, lambda: dv ** 2), "neg": (lambda: -v, lambda: -dv),
        "abs": (lambda: v.abs(), lambda: np.abs(dv)), "sqrt_sq": (lambda: (v * v).sqrt(), lambda: np.sqrt(dv * dv)),
        "clip": (lambda: v.clip(spec.get("lo", -0.5), spec.get("hi", 0.5)), None),
    }
    if op in ("sum", "max", "min", "norm"):
        if op == "sum":
            fns = [("method", lambda: v.sum()), ("fn", lambda: sr.sum(v)), ("ar", lambda: ar.do("sum", v))]
            want = dv.sum()
        elif op == "max":
            fns = [("method", lambda: v.max()), ("fn", lambda: sr.max(v)), ("ar", lambda: ar.do("max", v))]
            want = None
        elif op == "min":
            fns = [("method", lambda: v.min()), ("fn", lambda: sr.min(v)), ("ar", lambda: ar.do("min", v))]
            want = None
        else:
            fns = [("method", lambda: v.norm())]
            want = None
        got, others = routes(S, op, fns)
        if got is None:
            return
        for i, o in enumerate(others):
            _same(S, f"{op}:route{i}", got, o)
        if op == "sum":
            S.equal("sum", got, want)
        elif op in ("max", "min"):
            g = got if S.mode == "num" else zt.as_Z(got)
            # is an element, and bounds every element
            if S.mode == "sym":
                import z3
                gr = zt.parts(g)[0]
                els = [zt.parts(e)[0] for e in dv]
                S.holds(op + ":is-element", z3.Or(*[gr == e for e in els]))
                S.holds(op + ":bound", z3.And(*[(gr >= e) if op == "max" else (gr <= e) for e in els]))
            else:
                S.holds(op + ":value", abs(complex(g) - (dv.max() if op == "max" else dv.min())) < 1e-9)
        else:
            g = got if S.mode == "num" else zt.as_Z(got)
            tot = 0
            for e in dv:
                tot = tot + e * _conj(e)
            S.equal("norm^2", g * g, tot)
        return
    lib, refn = table[op]
    try:
        got = lib()
    except zt.Abort:
        raise
    except Exception as e:
        S.note(f"raised:{op}:{type(e).__name__}:{str(e)[:40]}")
        return
    if op == "clip":
        lo, hi = spec.get("lo", -0.5), spec.get("hi", 0.5)
        dg = dense(got)
        for i, (g, e) in enumerate(zip(dg, dv)):
            if S.mode == "sym":
                import z3
                gr, er = zt.parts(g)[0], zt.parts(e)[0]
                lo_, hi_ = zt._num(lo), zt._num(hi)
                S.holds(f"clip@{i}", gr == z3.If(er < lo_, lo_, z3.If(er > hi_, hi_, er)))
            else:
                S.holds(f"clip@{i}", abs(g - min(max(e, lo), hi)) < 1e-9)
        return
    S.equal_arrays(op, dense(got), refn())


BODIES = {f.__name__: f for f in (body_unary, body_binary, body_muldiag, body_vector)}


def _run(case):
    return run_case(BODIES[case["body"]], case["spec"], complex_=case.get("complex", False),
                    validate=case.get("validate", False), want_sample=case.get("sample", False),
                    seed=case.get("seed", 0), max_paths=case.get("max_paths", 400))


def build_family(tier, seed):
    rng = random.Random(seed)
    thorough = tier == "thorough"
    groups = {}
    for sym, generic in [("Z2", False), ("U1", False), ("Z2Z2", False), ("U1U1", False), ("Z4", True), ("U1", True)]:
        tabs = fam.index_tables(sym, 2, ("ones", "graded"))
        two = [t for t in tabs if len(t) == 2 and t[0][1] != t[1][1]]
        one = [t for t in tabs if len(t) == 1]
        if sym != "Z2":
            two, one = two[: (3 if not thorough else 6)], one[:2]
        tables = two + one
        arrays = []
        for nd in (1, 2, 3):
            tb = tables if nd < 3 else (two[:2] + one[:1])
            arrays += list(fam.array_specs(sym, nd, tb, generic=generic, sparsity_threshold=3, rng=rng))
        arrays, exA = fam.thin(arrays, 700 if not thorough else 7000, seed)
        un = []
        for i, a in enumerate(arrays):
            nd = len(a["indices"])
            perms = fam.perms(nd) + [None]
            if nd >= 2:
                perms.append(tuple(p - nd for p in perms[1]))
                # cyclic shifts spelled with mixed negative / non-negative axis numbers (numerically ascending, not the identity)
                for r in range(1, nd):
                    perms.append(tuple(range(-r, 0)) + tuple(range(0, nd - r)))
            for p in perms:
                un.append(dict(a=a, op="transpose", perm=p))
            for op in ("conj", "dagger", "neg", "mul_scalar", "rmul_scalar", "div_scalar", "sum", "norm"):
                un.append(dict(a=a, op=op))
            total = sum(int(np.prod([dict(cm)[c] for (cm, _), c in zip(a["indices"], s)])) for s in a["present"])
            if total <= 3:
                un.append(dict(a=a, op="abs"))
            # squeeze: every size-one axis (zero and non-zero charge), negative axes, all at once
            ones = [k for k, (cm, _) in enumerate(a["indices"]) if sum(d for _, d in cm) == 1]
            un.append(dict(a=a, op="squeeze", axis=None))
            for k in ones:
                un.append(dict(a=a, op="squeeze", axis=k))
                un.append(dict(a=a, op="squeeze", axis=k - nd))
            if len(ones) >= 2:
                un.append(dict(a=a, op="squeeze", axis=tuple(ones[:2])))
                un.append(dict(a=a, op="squeeze", axis=(ones[0], ones[1] - nd)))
                un.append(dict(a=a, op="squeeze", axis=[ones[1] - nd, ones[0] - nd]))
            if ones:
                un.append(dict(a=a, op="squeeze", axis=(ones[-1] - nd,)))
            for pos in list(range(nd + 1)) + [-1]:
                un.append(dict(a=a, op="expand_dims", axis=pos, c=None, dual=None))
            c1 = fam.UNIVERSE[sym][1]
            for pos in (0, nd):
                for dual in (False, True):
                    un.append(dict(a=a, op="expand_dims", axis=pos, c=c1, dual=dual))
        un, exU = fam.thin(un, 9000 if not thorough else 90000, seed + 1)
        nm = f"{sym}{'-generic' if generic else ''}"
        groups[f"unary/{nm}"] = ([dict(body="body_unary", spec=c, validate=(i % 60 == 0), sample=(i % 2000 == 0), seed=seed + i)
                                  for i, c in enumerate(un)], exA and exU)
        if not generic:
            cx = [c for c in un if c["op"] in ("conj", "dagger", "norm", "sum", "mul_scalar", "div_scalar", "transpose")]
            cx, _ = fam.thin(cx, 1500 if not thorough else 15000, seed + 2)
            groups[f"unary-complex/{nm}"] = ([dict(body="body_unary", spec=c, complex=True, validate=(i % 60 == 0), sample=(i % 700 == 0), seed=seed + i)
                                              for i, c in enumerate(cx)], False)
            # mixed arrays (as produced by real + complex with different stored sectors): the first stored block real, the rest complex
            mx = []
            for c in un:
                a = c["a"]
                if c["op"] in ("conj", "dagger", "norm", "sum", "transpose") and len(a["present"]) >= 2:
                    mx.append(dict(c, a=dict(a, cx=tuple(a["present"][1:]))))
            mx, _ = fam.thin(mx, 800 if not thorough else 8000, seed + 6)
            groups[f"unary-mixed-real-complex/{nm}"] = ([dict(body="body_unary", spec=c, validate=(i % 60 == 0), seed=seed + i)
                                                         for i, c in enumerate(mx)], False)
        # binary: same indices and charge, every pair of sparsity patterns (thresholded)
        bi = []
        for nd in (1, 2, 3):
            tb = tables if nd < 3 else two[:2]
            for ixs in fam.index_structs(sym, nd, tb):
                ixs = tuple(ixs)
                for q in fam.possible_charges(sym, ixs):
                    secs = fam.sectors_of(sym, ixs, q)
                    pa, e1 = fam.subsets(secs, 3, rng)
                    for pra, prb in itertools.product(pa, pa):
                        A = dict(sym=sym, generic=generic, fermionic=False, indices=ixs, charge=q, present=tuple(pra), name="a")
                        B = dict(A, present=tuple(prb), name="b")
                        for op in ("add", "sub", "mul"):
                            bi.append(dict(a=A, b=B, op=op))
        bi, exB = fam.thin(bi, 6000 if not thorough else 60000, seed + 3)
        groups[f"binary/{nm}"] = ([dict(body="body_binary", spec=c, validate=(i % 60 == 0), sample=(i % 2500 == 0), seed=seed + i)
                                   for i, c in enumerate(bi)], exB)
        md = []
        for a in arrays[:: (2 if not thorough else 1)]:
            nd = len(a["indices"])
            for ax in list(range(nd)) + [-1]:
                cm = a["indices"][ax % nd][0]
                chs = [c for c, _ in cm]
                vsets, _ = fam.subsets(chs, 3, rng)
                for vs in vsets:
                    md.append(dict(a=a, axis=ax, vcharges=tuple(vs)))
        md, exM = fam.thin(md, 4000 if not thorough else 40000, seed + 4)
        groups[f"multiply_diagonal/{nm}"] = ([dict(body="body_muldiag", spec=c, validate=(i % 60 == 0), sample=(i % 1500 == 0), seed=seed + i)
                                              for i, c in enumerate(md)], exA and exM)
    # block vectors
    vec = []
    for sym in ("Z2", "U1", "U1U1"):
        for cm in fam.index_tables(sym, 3 if sym == "U1" else 2, ("ones", "graded")):
            if sum(d for _, d in cm) > 4:
                continue
            for op in ("add_vv", "sub_vv", "mul_vv", "div_vv", "add_vs", "radd_vs", "sub_vs", "rsub_vs", "mul_vs",
                       "rmul_vs", "div_vs", "rdiv_vs", "pow_v2", "neg", "sqrt_sq", "sum", "norm"):
                vec.append(dict(cm=cm, op=op))
            if sum(d for _, d in cm) <= 3:
                for op in ("abs", "max", "min", "clip"):
                    vec.append(dict(cm=cm, op=op))
    groups["blockvector"] = ([dict(body="body_vector", spec=c, validate=(i % 10 == 0), sample=(i % 150 == 0), seed=seed + i)
                              for i, c in enumerate(vec)], True)
    cxv = [c for c in vec if c["op"] in ("add_vv", "mul_vv", "mul_vs", "div_vs", "neg", "sum", "norm")]
    groups["blockvector-complex"] = ([dict(body="body_vector", spec=c, complex=True, validate=(i % 10 == 0), seed=seed + i)
                                      for i, c in enumerate(cxv)], True)
    return groups


def run(tier, seed, only=None):
    rep = Report(PID, tier, seed)
    rep.explanation = (
        "Bounded symbolic checking: every listed operation is run by the real library on blocks of z3 terms, through each call route "
        "(method, symmray.<fn>, autoray.do); every coordinate of the result must equal the same operation applied to the independently "
        "densified operand (implicit zeros included), decided by z3 for all values; an operation may instead raise (all routes alike). "
        "Data-dependent operations (abs, min, max, clip) are explored on every feasible ordering of the data by the path controller.")
    rep.rule = "case = (array structure incl. sparsity, operation, arguments); non-trivial = produced at least one obligation"
    rep.functions = ["AbelianArray.{transpose,conj,dagger,H,T,squeeze,expand_dims,multiply_diagonal,__add__,__sub__,__mul__,__truediv__,__neg__}",
                     "BlockBase.{_binary_blockwise_op,sum,norm,abs,sqrt,clip,min,max}", "BlockVector arithmetic",
                     "symmray.interface.*", "autoray dispatch for backend 'symmray'"]
    rep.bounds = {"rank": "<=3", "charges_per_index": "<=2 (vectors <=3)", "block_sizes": "1..2", "symmetries": "Z2,U1,Z2Z2,U1U1 static; Z4,U1 generic",
                  "dtype": "real terms; complex terms for conj/dagger/norm/sum/scalar ops/transpose"}
    rep.outside = ["min/max/clip of *arrays* (dense form has implicit zeros; not in the statement's list)", "log/log2/log10 (raise RecursionError/AttributeError: 'raises' is allowed)",
                   "isfinite (numpy defines it only for machine dtypes)", "rounding"]
    rep.assumptions = ["division denominators are non-zero (reals for floats: no inf/nan)"]
    groups = build_family(tier, seed)
    run_groups(rep, groups, _run, only)
    return rep.finish()
