"""C03 — fermionic operations follow graded (Grassmann) tensor semantics (engine B + A)."""
import itertools
import os
import random

import numpy as np

from vlib import env  # noqa
import symmray as sr

from vlib import families as fam
from vlib import graded
from vlib import oracle as orc
from vlib import sym as gs
from vlib import xh
from vlib import zt
from vlib.build import build
from vlib.driver import Report
from vlib.par import pmap, run_groups
from vlib.session import run_case, Violation

PID = "C03"


def compare_graded(S, name, c, T, preserve_array=True):
    """library result c (array or scalar) vs oracle tensor T (dummies already canonicalised)"""
    ref = T.real_coords()
    nreal = len(T.legs) - T.ndummy()
    if nreal == 0 and not isinstance(c, sr.AbelianArray):
        S.equal(name + "@()", c, ref.get((), 0))
        return
    S.require(name + ":type", isinstance(c, sr.FermionicArray), f"result type {type(c).__name__}")
    S.require(name + ":rank", c.ndim == nreal, f"rank {c.ndim} != {nreal}")
    probs = orc.audit(c)
    S.require(name + ":valid", not probs, "; ".join(probs[:2]))
    got = orc.coords(c)
    for k in set(got) | set(ref):
        S.equal(f"{name}@{k}", got.get(k, 0), ref.get(k, 0))
    duals = [l[1] for l in T.legs[T.ndummy():]]
    S.require(name + ":duals", [ix.dual for ix in c.indices] == duals, "directions of the result legs")


def oracle_for(S, name, c, T):
    """canonicalise oracle labels to the library result's label tuple (multiset must agree)"""
    target = orc.labels_of(c) if isinstance(c, sr.FermionicArray) else ()
    for a_, b_ in zip(target, target[1:]):
        # an adjacent conjugate label pair is a contractible bra-ket pair: the contraction must have evaluated it
        if a_[0] == b_[0] and a_[1] != b_[1]:
            raise Violation(name + ":labels", f"adjacent conjugate labels left unevaluated on the result: {target}")
    try:
        return graded.canon_labels(T, target)
    except graded.LabelMismatch as e:
        raise Violation(name + ":labels", str(e))


def body_transpose(S, spec):
    x = build(S, spec["a"])
    G = graded.from_array(x)
    nd = G.ndummy()
    for p in spec["perms"]:
        pp = tuple(range(x.ndim - 1, -1, -1)) if p is None else tuple(a % x.ndim for a in p)
        y = x.transpose(p)
        T = G.permute(list(range(nd)) + [nd + a for a in pp])
        S.require(f"T{p}:labels", orc.labels_of(y) == orc.labels_of(x), "labels changed by transpose")
        S.require(f"T{p}:charge", y.charge == x.charge, "charge changed")
        S.require(f"T{p}:indices", [orc.index_sig(i) for i in y.indices] == [orc.index_sig(x.indices[a]) for a in pp], "indices not permuted")
        compare_graded(S, f"T{p}", y, T)
        y2 = sr.transpose(x, p)
        compare_graded(S, f"Tfn{p}", y2, T)
    if S.mode == "sym" and G.el:
        k0 = next(iter(G.el))
        S.canary("shifted", G.el[k0], G.el[k0] + 1)


def body_tensordot(S, spec):
    a = build(S, spec["a"])
    b = build(S, spec["b"])
    axa, axb = spec["axes"]
    GA, GB = graded.from_array(a), graded.from_array(b)
    T0 = graded.contract(GA, GB, [x % a.ndim for x in axa], [x % b.ndim for x in axb])
    qsum = gs.combine(spec["a"]["sym"], [spec["a"]["charge"], spec["b"]["charge"]])
    for mode in spec["modes"]:
        c = sr.tensordot(a, b, axes=(axa, axb), mode=mode, preserve_array=True)
        T = oracle_for(S, f"td[{mode}]", c, T0)
        S.require(f"td[{mode}]:charge", c.charge == qsum, f"charge {c.charge!r} != {qsum!r}")
        compare_graded(S, f"td[{mode}]", c, T)
        if len(axa) == a.ndim == b.ndim:
            v = sr.tensordot(a, b, axes=(axa, axb), mode=mode)
            # scalar form: all labels must have annihilated for the value to be label free
            if not orc.labels_of(c):
                S.equal(f"td-scalar[{mode}]", v, T.real_coords().get((), 0))
    if spec.get("matmul"):
        c = a @ b
        # a bare scalar carries no labels: its value refers to the label order of the array-form result
        Tm = oracle_for(S, "matmul", c, T0) if isinstance(c, sr.FermionicArray) else T
        compare_graded(S, "matmul", c, Tm)
    if S.mode == "sym":
        rc = T.real_coords()
        if rc:
            k0 = next(iter(rc))
            S.canary("shifted", rc[k0], rc[k0] + 1)


def body_einsum(S, spec):
    x = build(S, spec["a"])
    eq = spec["eq"]
    lhs, rhs = eq.split("->")
    G = graded.from_array(x)
    nd = G.ndummy()
    pairs = []
    for ch in sorted(set(lhs)):
        pos = [i for i, c in enumerate(lhs) if c == ch]
        if len(pos) == 2:
            i, j = pos
            # bra first then ket
            pairs.append((i, j) if x.indices[i].dual else (j, i))
    order = list(range(nd)) + [nd + p for pr in pairs for p in pr] + [nd + lhs.index(ch) for ch in rhs]
    T = G.permute(order)
    for _ in pairs:
        T = graded._contract_adjacent(T, nd)
    for pa in (True, False):
        c = x.einsum(eq, preserve_array=pa)
        Tc = oracle_for(S, f"einsum[{int(pa)}]", c, T) if isinstance(c, sr.FermionicArray) else T
        compare_graded(S, f"einsum[{int(pa)}]", c, Tc, preserve_array=pa)
    if eq == "aa->":
        S.equal("trace", x.trace(), T.real_coords().get((), 0))
        S.equal("trace-fn", sr.trace(x), T.real_coords().get((), 0))


BODIES = {f.__name__: f for f in (body_transpose, body_tensordot, body_einsum)}


def _run(case):
    return run_case(BODIES[case["body"]], case["spec"], complex_=case.get("complex", False), validate=case.get("validate", False),
                    want_sample=case.get("sample", False), seed=case.get("seed", 0))


LABELS = [(1, 2), (2, 1), ("x", "y"), ((0, 1), (0, 0)), (-3, 5)]


# multi-label operands [(label, dual), ...] in the library's sorted order (duals first, reflected; then kets ascending)
MULTI = {
    (0, 0): [([(1, False), (2, False)], [(2, True), (1, True)]), ([(1, False), (2, False)], [(3, True), (1, True)]),
             ([(2, True), (1, False)], [(1, True), (3, False)]), ([(1, False), (4, False)], [(2, False), (3, False)])],
    (1, 0): [([(3, False)], [(3, True), (2, False)]), ([(1, False), (2, False), (3, False)], [(3, True), (2, True)]),
             ([(2, False)], [(1, False), (3, False)]), ([(2, True)], [(3, True), (2, False)])],
    (0, 1): [([(1, False), (2, False)], [(2, True)]), ([(2, True), (1, False)], [(2, False)]),
             ([(1, False), (3, False)], [(2, False)]), ([(3, True), (2, True)], [(3, False)])],
    (1, 1): [([(1, False)], [(1, True)]), ([(1, False), (2, False), (3, False)], [(2, True)]),
             ([(2, False)], [(3, True), (1, False), (2, False)][:1]), ([(1, True)], [(1, False)])],
}


def build_family(tier, seed):
    rng = random.Random(seed)
    thorough = tier == "thorough"
    groups = {}
    for sym, generic in [("Z2", False), ("U1", False), ("Z2Z2", False), ("U1U1", False), ("Z2", True), ("U1U1", True)]:
        tabs3 = fam.index_tables(sym, 3 if sym in ("U1",) else 2, ("ones", "graded"))
        two, one = fam.std_tables(sym, thorough, n_two=3, n_one=2)
        three = [t for t in tabs3 if len(t) == 3][:2]
        nm = f"{sym}{'-generic' if generic else ''}"
        # transpose
        tc = []
        for nd in (1, 2, 3) + ((4,) if thorough else ()):
            tb = (two + one + three) if nd <= 2 else (two[:2] + one[:1] + three[:1] if nd == 3 else two[:1] + one[:1])
            arrs = list(fam.array_specs(sym, nd, tb, fermionic=True, generic=generic, sparsity_threshold=3, phases=True, rng=rng, labels=(("s", 1),)))
            arrs, _ = fam.thin(arrs, 1200 if not thorough else 12000, seed + nd)
            for a in arrs:
                perms = fam.perms(nd) + [None]
                if nd >= 2:
                    perms.append(tuple(p - nd for p in perms[1]))
                tc.append(dict(a=a, perms=tuple(perms)))
        tc, ex = fam.thin(tc, 3000 if not thorough else 30000, seed)
        groups[f"transpose/{nm}"] = ([dict(body="body_transpose", spec=c, validate=(i % 50 == 0), sample=(i % 1000 == 0), seed=seed + i)
                                      for i, c in enumerate(tc)], False)
        # contraction
        cc = []
        for na, nb in [(1, 1), (2, 1), (1, 2), (2, 2), (3, 2), (2, 3), (3, 3), (3, 1), (1, 3)]:
            small = na + nb <= 4
            tb = (two[:2] + one[:1] + three[:1]) if small else (two[:2] + one[:1])
            structs = fam.pair_structs(sym, na, nb, tb, two[:1] + one[:1])
            structs, _ = fam.thin(structs, (250 if small else 150) if not thorough else 2500, seed + na * 5 + nb)
            for k, st in enumerate(structs):
                labels = LABELS[k % len(LABELS)]
                for A, B, axes, ex2 in fam.expand_pair(sym, st, rng, generic=generic, fermionic=True, max_pairs=4 if not thorough else 10,
                                                       labels=labels, phases=True, max_phase=2):
                    cc.append(dict(a=A, b=B, axes=axes, modes=("blockwise", "fused", "auto"),
                                   matmul=(axes == ((na - 1,), (0,)) and na <= 2 and nb <= 2)))
                    if len(cc) % 3 == 0:
                        # operands that already subsume several sorted labels (as intermediates of a network do)
                        pa, pb = gs.parity(sym, A["charge"]), gs.parity(sym, B["charge"])
                        for la, lb in MULTI[(pa, pb)][(len(cc) // 3) % 2:: 2]:
                            cc.append(dict(a=dict(A, oddpos=la), b=dict(B, oddpos=lb), axes=axes, modes=("blockwise", "fused"), matmul=False))
        cc, ex = fam.thin(cc, 6000 if not thorough else 60000, seed + 1)
        groups[f"tensordot/{nm}"] = ([dict(body="body_tensordot", spec=c, validate=(i % 60 == 0), sample=(i % 2000 == 0), seed=seed + i)
                                      for i, c in enumerate(cc)], False)
        # trace / einsum
        es = []
        for nd in (2, 3):
            tb = two[:2] + one[:1]
            eqs = {2: ["ab->ba", "ab->ab", "aa->"], 3: ["abc->cab", "abc->bac", "abc->cba", "aab->b", "aba->b", "baa->b"]}[nd]
            for ixs in fam.index_structs(sym, nd, tb):
                for eq in eqs:
                    lhs = eq.split("->")[0]
                    ixs2 = list(ixs)
                    for ch in set(lhs):
                        pos = [i for i, c in enumerate(lhs) if c == ch]
                        if len(pos) == 2:
                            ixs2[pos[1]] = fam.conj_index(ixs2[pos[0]])
                    ixs2 = tuple(ixs2)
                    for q in fam.possible_charges(sym, ixs2):
                        secs = fam.sectors_of(sym, ixs2, q)
                        pres, _ = fam.subsets(secs, 3, rng)
                        for p in pres[:3]:
                            ph, _ = fam.subsets(p, 2, rng, allow_empty=True, nrand=1)
                            for phs in ph[:2]:
                                es.append(dict(a=dict(sym=sym, generic=generic, fermionic=True, indices=ixs2, charge=q, present=tuple(p),
                                                      phases=tuple(phs), oddpos=("s", 1) if gs.parity(sym, q) else None, name="a"), eq=eq))
        es = list({repr(e): e for e in es}.values())
        es, _ = fam.thin(es, 2500 if not thorough else 25000, seed + 2)
        groups[f"einsum-trace/{nm}"] = ([dict(body="body_einsum", spec=c, validate=(i % 60 == 0), sample=(i % 1200 == 0), seed=seed + i)
                                         for i, c in enumerate(es)], False)
    return groups


def run(tier, seed, only=None):
    rep = Report(PID, tier, seed)
    rep.explanation = (
        "Bounded symbolic checking: the real fermionic transpose / tensordot (blockwise, fused, auto) / @ / trace / einsum run on z3-term blocks with "
        "pending signs and odd-position labels; every element of the result (pending signs applied) must equal, as a signed polynomial, the element "
        "computed by an independent dense graded-tensor calculus (Koszul sign by inversion count among odd legs, ket-then-bra contraction sign, dummy odd "
        "legs for odd-parity tensors, label canonicalisation); z3 decides the identities. CrossHair proves the Koszul kernel equals the inversion-count sign "
        "for symbolic parities and every permutation of <=4 (5 thorough) legs.")
    rep.rule = "case = (operand structures incl. sparsity, pending-sign tables, labels, permutations or axes, modes); non-trivial = produced obligations"
    rep.functions = ["FermionicArray.transpose/phase_flip/phase_transpose/phase_sync/trace/einsum/__matmul__", "tensordot_fermionic", "resolve_combined_oddpos",
                     "calc_phase_permutation", "tensordot_abelian (both strategies underneath)"]
    rep.bounds = {"rank": "<=3 per operand (transpose 4 in thorough)", "charges_per_index": "<=3 (U1), <=2 otherwise", "block_sizes": "1..3",
                  "labels": "ints, strings, tuples, negative ints", "classes": "Z2,U1,Z2Z2,U1U1 static fermionic; Z2,U1U1 generic fermionic"}
    rep.outside = ["ranks beyond the bound", "rounding"]
    groups = build_family(tier, seed)
    run_groups(rep, groups, _run, only)
    if not only or "xh" in only:
        res, herr = xh.run_all(os.path.join(env.VERIF, "harness", "h_c03.py"), timeout=150 if tier == "quick" else 600,
                               only=(lambda n: "_5" not in n) if tier == "quick" else None)
        rep.add_xh(res)
        rep.harness_errors += herr
        rep.violations += xh.violations_from(res, PID)
    return rep.finish()
