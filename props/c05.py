"""C05 — fusing is an exact, invertible re-indexing described by the fused index (engine B + A)."""
import itertools
import os
import random

import numpy as np

from vlib import env  # noqa
import symmray as sr
import symmray.abelian_core as ac

from vlib import families as fam
from vlib import graded
from vlib import oracle as orc
from vlib import sym as gs
from vlib import xh
from vlib.build import build
from vlib.driver import Report
from vlib.par import pmap, run_groups
from vlib.session import run_case, Violation
from vlib import zt

PID = "C05"


def layout(ndim, groups):
    grouped = [a for g in groups for a in g]
    position = min(grouped)
    before = [a for a in range(position) if a not in grouped]
    after = [a for a in range(position, ndim) if a not in grouped]
    perm = before + grouped + after
    return position, before, after, perm


def check_fused(S, name, x, y, groups, fermionic):
    """y = fuse(x, groups): every element of x sits exactly once where y's own sub-index table says"""
    sym = orc.symname(x)
    position, before, after, perm = layout(x.ndim, groups)
    S.require(name + ":rank", y.ndim == len(before) + len(groups) + len(after), f"rank {y.ndim}")
    probs = orc.audit(y)
    S.require(name + ":valid", not probs, "; ".join(probs[:2]))
    S.require(name + ":charge", y.charge == x.charge, f"charge {y.charge!r} != {x.charge!r}")
    for n, a in enumerate(before):
        S.require(name + ":kept-index", orc.index_sig(y.indices[n]) == orc.index_sig(x.indices[a]), f"axis {a}")
    for n, a in enumerate(after):
        m = len(before) + len(groups) + n
        S.require(name + ":kept-index", orc.index_sig(y.indices[m]) == orc.index_sig(x.indices[a]), f"axis {a}")
    for gi, g in enumerate(groups):
        yi = y.indices[position + gi]
        if len(g) == 1:
            S.require(name + ":singlet-index", orc.index_sig(yi) == orc.index_sig(x.indices[g[0]]), f"group {g}")
            continue
        S.require(name + ":direction", yi.dual == x.indices[g[0]].dual,
                  f"fused direction {yi.dual} but first axis {g[0]} of the group has {x.indices[g[0]].dual}")
        S.require(name + ":subinfo", yi.subinfo is not None, "fused index carries no sub-index table")
        S.require(name + ":subindices", [orc.index_sig(s) for s in yi.subinfo.indices] == [orc.index_sig(x.indices[a]) for a in g],
                  "sub-indices of the fused index are not the group's indices in listed order")
    cx, cy = orc.coords(x), orc.coords(y)
    used = set()
    for k, v in cx.items():
        tgt = []
        for a in before:
            tgt.append(k[a])
        for gi, g in enumerate(groups):
            yi = y.indices[position + gi]
            if len(g) == 1:
                tgt.append(k[g[0]])
                continue
            sub = tuple(k[a][0] for a in g)
            comb = gs.combine(sym, [gs.signed(sym, k[a][0], x.indices[a].dual) for a in g])
            cf = gs.signed(sym, comb, yi.dual)
            ext = yi.subinfo.extents
            S.require(name + ":fused-charge", cf in ext and sub in ext[cf],
                      f"sub-sector {sub} not listed under its signed combination {cf!r}")
            start = 0
            for ss, sz in ext[cf].items():
                if ss == sub:
                    break
                start += sz
            off = 0
            for a in g:
                off = off * x.indices[a].chargemap[k[a][0]] + k[a][1]
            tgt.append((cf, start + off))
        for a in after:
            tgt.append(k[a])
        tgt = tuple(tgt)
        S.require(name + ":placed", tgt in cy, f"element {k} has no entry at {tgt}")
        S.require(name + ":once", tgt not in used, f"two elements map to {tgt}")
        used.add(tgt)
        if not fermionic:
            S.equal(f"{name}@{k}", cy[tgt], v)
        else:
            _pm(S, f"{name}@{k}", cy[tgt], v)
    for t, v in cy.items():
        if t not in used:
            S.equal(f"{name}:zero@{t}", v, 0)


def _pm(S, name, a, b):
    if S.mode == "sym":
        import z3
        S.holds(name, z3.Or(zt.eq_formula(a, b), zt.eq_formula(a, -b)))
    else:
        S.holds(name, min(abs(a - b), abs(a + b)) <= 1e-9 * max(1, abs(b)))


def check_unfused(S, name, x, z, perm, fermionic):
    """z must be x with axes permuted by perm (graded sign for fermionic), extra blocks zero"""
    sym = orc.symname(x)
    S.require(name + ":rank", z.ndim == x.ndim, f"rank {z.ndim}")
    probs = orc.audit(z)
    S.require(name + ":valid", not probs, "; ".join(probs[:2]))
    S.require(name + ":indices", [orc.index_sig(i) for i in z.indices] == [orc.index_sig(x.indices[p]) for p in perm],
              "indices after unfuse differ from the original's")
    cx, cz = orc.coords(x), orc.coords(z)
    exp = {}
    for k, v in cx.items():
        s = graded.koszul([gs.parity(sym, c) for c, _ in k], perm) if fermionic else 1
        exp[tuple(k[p] for p in perm)] = v if s == 1 else -v
    for t, v in exp.items():
        S.require(name + ":present", t in cz, f"original element missing at {t}")
        S.equal(f"{name}@{t}", cz[t], v)
    for t, v in cz.items():
        if t not in exp:
            S.equal(f"{name}:extra@{t}", v, 0)


def body_fuse(S, spec):
    ac._fuseinfo_cache_maxsize = 8192 if spec.get("cache") else 0
    ac._fuseinfos.clear()
    x = build(S, spec["a"])
    fermionic = bool(spec["a"].get("fermionic"))
    groups = spec["groups"]
    position, before, after, perm = layout(x.ndim, groups)
    results = []
    for mode in spec["modes"]:
        for rep in range(2 if spec.get("cache") else 1):
            y = x.fuse(*groups) if mode is None else x.fuse(*groups, mode=mode)
            nm = f"fuse[{mode},{rep}]"
            check_fused(S, nm, x, y, groups, fermionic)
            results.append(y)
        z = y
        for gi in reversed(range(len(groups))):
            if len(groups[gi]) > 1:
                # (alternately by positive and by negative axis number)
                z = z.unfuse(position + gi) if gi % 2 == 0 else z.unfuse(position + gi - z.ndim)
        if len(groups) == 1 and len(groups[0]) > 1:
            zn = y.unfuse(position - y.ndim)
            check_unfused(S, f"unfuse-negative-axis[{mode}]", x, zn, perm, fermionic)
        check_unfused(S, f"unfuse[{mode}]", x, z, perm, fermionic)
        if not spec["a"].get("prefuse"):
            z2 = y.unfuse_all()
            check_unfused(S, f"unfuse_all[{mode}]", x, z2, perm, fermionic)
    if spec.get("cache"):
        # warm cache: a near-identical sibling (the conjugate: same sectors, opposite directions) fused next
        xc = x.conj()
        for mode in spec["modes"]:
            yc = xc.fuse(*groups) if mode is None else xc.fuse(*groups, mode=mode)
            check_fused(S, f"fuse-conj-after[{mode}]", xc, yc, groups, fermionic)
    y0 = results[0]
    for i, y in enumerate(results[1:]):
        S.require(f"same[{i}]:indices", [orc.index_sig(a) for a in y.indices] == [orc.index_sig(a) for a in y0.indices],
                  "index tables differ between strategies / repeated calls")
        c0, c1 = orc.coords(y0), orc.coords(y)
        S.require(f"same[{i}]:sectors", list(y.blocks) == list(y0.blocks) or set(y.blocks) == set(y0.blocks), "stored sectors differ")
        for k in c0:
            S.equal(f"same[{i}]@{k}", c1.get(k, 0), c0[k])
    if S.mode == "sym":
        cy = orc.coords(y0)
        if cy:
            k0 = next(iter(cy))
            S.canary("shifted", cy[k0], cy[k0] + 1)


BODIES = {"body_fuse": body_fuse}


def _run(case):
    return run_case(body_fuse, case["spec"], complex_=case.get("complex", False), validate=case.get("validate", False),
                    want_sample=case.get("sample", False), seed=case.get("seed", 0))


def groupings(ndim, thorough):
    gs_ = fam.ordered_groupings(ndim, max_groups=2)
    return gs_


def build_family(tier, seed):
    rng = random.Random(seed)
    thorough = tier == "thorough"
    groups = {}
    for sym, generic, fermionic in [("Z2", False, False), ("U1", False, False), ("Z2Z2", False, False), ("U1U1", False, False),
                                    ("Z4", True, False), ("Z2", False, True), ("U1", False, True), ("U1U1", False, True), ("Z2Z2", True, True)]:
        tabs = fam.index_tables(sym, 2, ("ones", "graded"))
        two = [t for t in tabs if len(t) == 2 and t[0][1] != t[1][1]]
        one = [t for t in tabs if len(t) == 1]
        if sym != "Z2":
            two, one = two[: (2 if not thorough else 5)], one[:1]
        cases = []
        ex_all = True
        for nd in (2, 3, 4):
            if nd == 4:
                tb = two[:1] + one[:1]
            elif nd == 3:
                tb = two[:2] + one[:1]
            else:
                tb = two + one
            arrs = list(fam.array_specs(sym, nd, tb, fermionic=fermionic, generic=generic, sparsity_threshold=4 if nd < 4 else 3,
                                        phases=fermionic, rng=rng))
            lim = {2: None, 3: 500, 4: 150}[nd] if not thorough else {2: None, 3: 6000, 4: 2000}[nd]
            arrs, ex = fam.thin(arrs, lim, seed + nd)
            ex_all &= ex and all(a["exhaustive"] for a in arrs)
            gl = groupings(nd, thorough)
            if nd == 4:
                gl, _ = fam.thin(gl, 12 if not thorough else 60, seed)
                ex_all = False
            for a in arrs:
                for g in gl:
                    cases.append(dict(a=a, groups=g, modes=(None,) if fermionic else ("insert", "concat"), cache=False))
        # groups containing an already fused axis: 3-leg base fused over (1,2) / (2,0), then fuse the result's axes
        base = list(fam.array_specs(sym, 3, two[:2], fermionic=fermionic, generic=generic, sparsity_threshold=3, rng=rng))
        base, _ = fam.thin(base, 60 if not thorough else 600, seed + 9)
        for a in base:
            for pre in (((1, 2),), ((2, 0),)):
                for g in (((0, 1),), ((1, 0),)):
                    cases.append(dict(a=dict(a, prefuse=(pre,)), groups=g, modes=(None,) if fermionic else ("insert", "concat"), cache=False))
        cases, ex = fam.thin(cases, 5000 if not thorough else 50000, seed)
        ex_all &= ex
        nm = f"{sym}{'-generic' if generic else ''}{'-fermionic' if fermionic else ''}"
        groups[f"fuse/{nm}"] = ([dict(body="body_fuse", spec=c, validate=(i % 50 == 0), sample=(i % 1500 == 0), seed=seed + i)
                                 for i, c in enumerate(cases)], ex_all)
        extra = [dict(c, cache=True) for c in cases[::7]]
        groups[f"fuse-cache-on/{nm}"] = ([dict(body="body_fuse", spec=c, seed=seed + i) for i, c in enumerate(extra)], False)
        if sym in ("Z2", "U1"):
            cx = cases[::9]
            groups[f"fuse-complex/{nm}"] = ([dict(body="body_fuse", spec=c, complex=True, validate=(i % 50 == 0), seed=seed + i)
                                             for i, c in enumerate(cx)], False)
    return groups


def classify(v):
    d = str(v.get("detail", "")) + str(v.get("name", ""))
    spec = v.get("spec") or {}
    tags = {}
    if v.get("kind") == "raised" and ("KeyError" in d or "AttributeError" in d) and isinstance(spec, dict):
        gl = spec.get("groups", ())
        if any(len(g) == 1 for g in gl) and "concat" in spec.get("modes", ()):
            tags["defect"] = "concat-singlet-group-missing-subblock"
    return tags


def run(tier, seed, only=None):
    rep = Report(PID, tier, seed)
    rep.explanation = (
        "Bounded symbolic checking: every input entry is a distinct z3 variable, the real fuse/unfuse code (both strategies, cache on/off) "
        "runs on them, and the oracle computes, from the *result's own* sub-index table, where each input element must sit; z3 decides that the "
        "coordinate holds exactly that variable (abelian) or +-it (fermionic), that every other stored coordinate is zero, that unfusing restores "
        "every original entry term-for-term (graded permutation sign for fermionic), and that insert and concat agree. "
        "CrossHair confirms the axis-group bookkeeping kernel for symbolic duals.")
    rep.rule = "case = (array structure incl. sparsity/pending signs/pre-fused legs, ordered disjoint axis groups, strategies, cache); non-trivial = produced obligations"
    rep.functions = ["AbelianArray.fuse/_fuse_core/unfuse/unfuse_all", "calc_fuse_group_info", "calc_fuse_block_info", "cached_fuse_block_info",
                     "_fuse_blocks_via_insert", "_fuse_blocks_via_concat", "FermionicArray.fuse/unfuse", "accum_for_split"]
    rep.bounds = {"rank": "2..4 (4 on a reduced table set)", "groups": "every list of <=2 ordered disjoint groups (rank 4: seeded subset)",
                  "charges_per_index": "<=2", "block_sizes": "1..2", "pre-fused legs": "3-leg bases fused over (1,2)/(2,0) then fused again"}
    rep.outside = ["rank > 4, more than two groups at once, block sizes > 2", "rounding"]
    groups = build_family(tier, seed)
    run_groups(rep, groups, _run, only)
    if not only or "xh" in only:
        res, herr = xh.run_all(os.path.join(env.VERIF, "harness", "h_c05.py"), timeout=120 if tier == "quick" else 400)
        rep.add_xh(res)
        rep.harness_errors += herr
        rep.violations += xh.violations_from(res, PID)
    return rep.finish(classify)
