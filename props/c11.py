"""C11 — decompositions reconstruct the input from properly structured factors (engine B with LAPACK contract stubs)."""
import itertools
import random

import numpy as np

from vlib import env  # noqa
import symmray as sr
import autoray as ar

from vlib import families as fam
from vlib import oracle as orc
from vlib import stubs
from vlib import sym as gs
from vlib import zt
from vlib.build import build
from vlib.driver import Report
from vlib.par import pmap, run_groups
from vlib.session import run_case, Violation

PID = "C11"


def _cj(v):
    return v.conjugate() if hasattr(v, "conjugate") else v


def same_tensor(S, name, got, ref):
    """got == ref as tensors (by charge address, pending signs applied, both directions)"""
    S.require(name + ":rank", got.ndim == ref.ndim, f"rank {got.ndim} vs {ref.ndim}")
    S.require(name + ":charge", got.charge == ref.charge, f"charge {got.charge!r} vs {ref.charge!r}")
    S.require(name + ":duals", [i.dual for i in got.indices] == [i.dual for i in ref.indices], "directions differ")
    c1, c2 = orc.coords(got), orc.coords(ref)
    for k in set(c1) | set(c2):
        S.equal(f"{name}@{k}", c1.get(k, 0), c2.get(k, 0))


def orthonormal_cols(S, name, B):
    B = np.asarray(B, dtype=S.dtype())
    k = B.shape[1]
    G = np.conj(B).T.dot(B)
    for i in range(k):
        for j in range(k):
            S.equal(f"{name}[{i},{j}]", G[i, j], 1 if i == j else 0)


def orthonormal_rows(S, name, B):
    B = np.asarray(B, dtype=S.dtype())
    k = B.shape[0]
    G = B.dot(np.conj(B).T)
    for i in range(k):
        for j in range(k):
            S.equal(f"{name}[{i},{j}]", G[i, j], 1 if i == j else 0)


def nonneg(S, name, v):
    if S.mode == "sym":
        S.holds(name, zt.parts(v)[0] >= 0)
        if not zt._is_zero(zt.parts(v)[1]):
            S.equal(name + ":real", Z_im(v), 0)
    else:
        S.holds(name, complex(v).real >= -1e-12 and abs(complex(v).imag) < 1e-9)


def Z_im(v):
    return zt.Z(zt.parts(v)[1])


def geq(S, name, a, b):
    if S.mode == "sym":
        S.holds(name, zt.parts(a)[0] >= zt.parts(b)[0])
    else:
        S.holds(name, complex(a).real >= complex(b).real - 1e-12)


def bond_structure(S, name, x, left, right, ncols):
    """left = factor carrying the new bond as its 2nd leg, right = factor carrying it as its 1st leg"""
    bl, br = left.indices[1], right.indices[0]
    S.require(name + ":bond-directions", bl.dual != br.dual, "bond has the same direction on both factors")
    S.require(name + ":bond-direction", bl.dual == x.indices[1].dual, "bond direction on the left factor differs from the input's column leg")
    want = {}
    for sector in x.blocks:
        want[sector[1]] = ncols[sector]
    S.require(name + ":bond-table-left", dict(bl.chargemap) == dict(sorted(want.items())), f"bond charge table {dict(bl.chargemap)} but input blocks give {want}")
    S.require(name + ":bond-table-right", dict(br.chargemap) == dict(sorted(want.items())), f"bond charge table on right factor {dict(br.chargemap)} vs {want}")
    S.require(name + ":outer-left", orc.index_sig(left.indices[0]) == orc.index_sig(x.indices[0]), "row leg changed")
    S.require(name + ":outer-right", orc.index_sig(right.indices[1]) == orc.index_sig(x.indices[1]), "column leg changed")
    S.require(name + ":right-charge", right.charge == gs.identity(orc.symname(x)), f"right factor has charge {right.charge!r}")
    S.require(name + ":right-sectors", all(s[0] == s[1] for s in right.blocks), "right factor has off-diagonal sectors")
    S.require(name + ":one-block-per-input-block", len(left.blocks) == len(x.blocks) and set(left.blocks) == set(x.blocks), "left factor sectors differ from the input's")


def body_qr(S, spec):
    stubs.install()
    x = build(S, spec["a"])
    for stab in spec["stabilized"]:
        tag = f"qr[stab={int(stab)}]"
        if spec.get("route") == "ar" and not stab:
            q, r = ar.do("linalg.qr", x)
        else:
            q, r = sr.linalg.qr(x, stabilized=stab)
        probs = orc.audit(q) + orc.audit(r)
        S.require(tag + ":valid", not probs, "; ".join(probs[:2]))
        ncols = {s: min(np.shape(b)) for s, b in x.blocks.items()}
        bond_structure(S, tag, x, q, r, ncols)
        same_tensor(S, tag + ":q@r", q @ r, x)
        same_tensor(S, tag + ":tensordot(q,r,1)", sr.tensordot(q, r, 1, preserve_array=True), x)
        for s, B in q.blocks.items():
            orthonormal_cols(S, f"{tag}:Q{s}", B)
        for s, B in r.blocks.items():
            B = np.asarray(B, dtype=S.dtype())
            for i in range(B.shape[0]):
                for j in range(min(i, B.shape[1])):
                    S.equal(f"{tag}:R{s}-lower[{i},{j}]", B[i, j], 0)
                if stab and i < B.shape[1]:
                    nonneg(S, f"{tag}:R{s}-diag[{i}]", B[i, i])
    if S.mode == "sym":
        cx = orc.coords(x)
        if cx:
            k0 = next(iter(cx))
            S.canary("shifted", cx[k0], cx[k0] + 1)


def body_svd(S, spec):
    stubs.install()
    x = build(S, spec["a"])
    if spec.get("route") == "ar":
        u, s, vh = ar.do("linalg.svd", x)
    else:
        u, s, vh = sr.linalg.svd(x)
    probs = orc.audit(u) + orc.audit(vh) + orc.audit_vector(s)
    S.require("svd:valid", not probs, "; ".join(probs[:2]))
    ncols = {sec: min(np.shape(b)) for sec, b in x.blocks.items()}
    bond_structure(S, "svd", x, u, vh, ncols)
    S.require("svd:s-keys", dict((c, len(b)) for c, b in s.blocks.items()) == {sec[1]: n for sec, n in ncols.items()},
              "singular-value blocks are not keyed by the bond charges with the bond sizes")
    same_tensor(S, "svd:u@(s*vh)", u @ vh.multiply_diagonal(s, 0), x)
    same_tensor(S, "svd:(u*s)@vh", u.multiply_diagonal(s, 1) @ vh, x)
    for sec, B in u.blocks.items():
        orthonormal_cols(S, f"svd:U{sec}", B)
    for sec, B in vh.blocks.items():
        orthonormal_rows(S, f"svd:Vh{sec}", B)
    for c, b in s.blocks.items():
        for i in range(len(b)):
            nonneg(S, f"svd:s{c}[{i}]>=0", b[i])
            if i:
                geq(S, f"svd:s{c}[{i - 1}]>=s[{i}]", b[i - 1], b[i])
    if S.mode == "sym":
        cx = orc.coords(x)
        if cx:
            k0 = next(iter(cx))
            S.canary("shifted", cx[k0], cx[k0] + 1)


def hermitian(S, spec):
    """charge-zero matrix with Hermitian diagonal blocks H = A + A^H"""
    x = build(S, spec["a"])
    for s in list(x.blocks):
        A = x.blocks[s]
        x.blocks[s] = A + np.conj(A).T
    return x


def body_eigh(S, spec):
    stubs.install()
    x = hermitian(S, spec)
    if spec.get("route") == "ar":
        el, ev = ar.do("linalg.eigh", x)
    else:
        el, ev = sr.linalg.eigh(x)
    probs = orc.audit(ev) + orc.audit_vector(el)
    S.require("eigh:valid", not probs, "; ".join(probs[:2]))
    S.require("eigh:indices", [orc.index_sig(i) for i in ev.indices] == [orc.index_sig(i) for i in x.indices], "eigenvector indices differ from the input's")
    S.require("eigh:keys", {c: len(b) for c, b in el.blocks.items()} == {s[1]: np.shape(b)[1] for s, b in x.blocks.items()}, "eigenvalue blocks mis-keyed")
    same_tensor(S, "eigh:ev*el@ev.H", ev.multiply_diagonal(el, 1) @ ev.H, x)
    for s, B in ev.blocks.items():
        orthonormal_cols(S, f"eigh:W{s}", B)


def body_solve(S, spec):
    stubs.install()
    a = build(S, spec["a"])
    b = build(S, spec["b"])
    sym = spec["a"]["sym"]
    if S.mode == "sym":
        # the blocks of A are assumed invertible (2x2 or 1x1): determinant non-zero
        import z3
        for s, B in a.blocks.items():
            B = np.asarray(B, dtype=object)
            if B.shape == (1, 1):
                det = B[0, 0]
            else:
                det = B[0, 0] * B[1, 1] - B[0, 1] * B[1, 0]
            zt.ctl().assume(zt.parts(det)[0] != 0, "input: blocks of A are invertible (solve)")
    x = sr.linalg.solve(a, b)
    probs = orc.audit(x)
    if probs:
        S.structural.append(("solve:valid", "; ".join(probs[:2])))
    want_q = gs.combine(sym, [spec["b"]["charge"], gs.neg(sym, spec["a"]["charge"])])
    S.require("solve:charge", x.charge == want_q, f"charge {x.charge!r}, expected combine(b, -a) = {want_q!r}")
    S.require("solve:index", x.indices[0].dual == (not a.indices[1].dual) and dict(x.indices[0].chargemap) == dict(a.indices[1].chargemap),
              "solution index is not the conjugate of A's column index")
    try:
        ax = a @ x
    except zt.Abort:
        raise
    except Exception as e:
        raise Violation("solve:a@x-raises", f"{type(e).__name__}: {e}")
    same_tensor(S, "solve:a@x=b", ax, b)


BODIES = {f.__name__: f for f in (body_qr, body_svd, body_eigh, body_solve)}


def _run(case):
    return run_case(BODIES[case["body"]], case["spec"], complex_=case.get("complex", False), validate=False,
                    want_sample=case.get("sample", False), seed=case.get("seed", 0), max_paths=200, wall_limit=120)


def matrix_specs(sym, generic, fermionic, rng, thorough, max_n):
    """2-leg arrays directly, and 3-leg arrays fused to matrices"""
    two, one = fam.std_tables(sym, thorough, n_two=3, n_one=1)
    uni = fam.UNIVERSE[sym]
    extra = [((uni[0], 2), (uni[1], 1)), ((uni[0], 2), (uni[1], 2))]
    tabs = list(dict.fromkeys(two[:2] + one[:1] + extra))
    out = []
    for a in fam.array_specs(sym, 2, tabs, fermionic=fermionic, generic=generic, sparsity_threshold=3, phases=fermionic, rng=rng, labels=(3,)):
        out.append(a)
    out, _ = fam.thin(out, max_n, rng.randrange(10 ** 6))
    fused = []
    for a in fam.array_specs(sym, 3, [two[0]] + one[:1], fermionic=fermionic, generic=generic, sparsity_threshold=3, phases=False, rng=rng, labels=(3,)):
        for pre in (((0, 1),), ((1, 2),)):
            fused.append(dict(a, prefuse=(pre,)))
    fused, _ = fam.thin(fused, max_n // 3, rng.randrange(10 ** 6))
    return out + fused


def build_family(tier, seed):
    rng = random.Random(seed)
    thorough = tier == "thorough"
    groups = {}
    for sym, generic, fermionic in [("Z2", False, False), ("U1", False, False), ("U1U1", False, False), ("Z4", True, False),
                                    ("Z2", False, True), ("U1", False, True), ("Z2Z2", False, True)]:
        nm = f"{sym}{'-generic' if generic else ''}{'-fermionic' if fermionic else ''}"
        mats = matrix_specs(sym, generic, fermionic, rng, thorough, 300 if not thorough else 3000)
        groups[f"qr/{nm}"] = ([dict(body="body_qr", spec=dict(a=a, stabilized=(False, True), route=("ar" if i % 4 == 0 else "fn")), sample=(i % 150 == 0), seed=seed + i)
                               for i, a in enumerate(mats)], False)
        groups[f"svd/{nm}"] = ([dict(body="body_svd", spec=dict(a=a, route=("ar" if i % 4 == 0 else "fn")), sample=(i % 150 == 0), seed=seed + i)
                                for i, a in enumerate(mats)], False)
        cm = mats[::6]
        groups[f"qr-complex/{nm}"] = ([dict(body="body_qr", spec=dict(a=a, stabilized=(False,)), complex=True, seed=seed + i) for i, a in enumerate(cm)], False)
        groups[f"svd-complex/{nm}"] = ([dict(body="body_svd", spec=dict(a=a), complex=True, seed=seed + i) for i, a in enumerate(cm)], False)
        # eigh: charge-zero matrices with conjugate legs
        two, one = fam.std_tables(sym, thorough, n_two=3, n_one=1)
        eg = []
        for cmv in two[:3] + one[:1]:
            for d in (False, True):
                ixs = ((cmv, d), (cmv, not d))
                q = gs.identity(sym)
                secs = fam.sectors_of(sym, ixs, q)
                pres, _ = fam.subsets(secs, 3, rng)
                for p in pres:
                    phs, _ = fam.subsets(p, 2, rng, allow_empty=True, nrand=1) if fermionic else ([()], True)
                    for ph in phs[:3]:
                        eg.append(dict(sym=sym, generic=generic, fermionic=fermionic, indices=ixs, charge=q, present=tuple(p), phases=tuple(ph), oddpos=None, name="a"))
        groups[f"eigh/{nm}"] = ([dict(body="body_eigh", spec=dict(a=a, route=("ar" if i % 3 == 0 else "fn")), sample=(i % 40 == 0), seed=seed + i) for i, a in enumerate(eg)], False)
        groups[f"eigh-complex/{nm}"] = ([dict(body="body_eigh", spec=dict(a=a), complex=True, seed=seed + i) for i, a in enumerate(eg[::3])], False)
        # solve: square blocks (row size == column size per block)
        uni = fam.UNIVERSE[sym]
        sv = []
        sq_tabs = [((uni[0], 1), (uni[1], 1)), ((uni[0], 2), (uni[1], 2)), ((uni[0], 1),), ((uni[1], 2),)]
        for cmv in sq_tabs:
            for d0, d1 in itertools.product((False, True), repeat=2):
                ixs = ((cmv, d0), (cmv, d1))
                for qa in fam.possible_charges(sym, ixs):
                    secs = fam.sectors_of(sym, ixs, qa)
                    # blocks must be square: same size for row and column charge
                    secs = [s for s in secs if dict(cmv)[s[0]] == dict(cmv)[s[1]]]
                    if not secs:
                        continue
                    pres, _ = fam.subsets(secs, 3, rng)
                    for p in pres[:4]:
                        A = dict(sym=sym, generic=generic, fermionic=fermionic, indices=ixs, charge=qa, present=tuple(p), phases=(),
                                 oddpos=(1 if fermionic and gs.parity(sym, qa) else None), name="a")
                        bix = ((cmv, d0),)
                        rows = {s_[0] for s_ in p}
                        for qb in fam.possible_charges(sym, bix):
                            # the system must be solvable: b lives on row charges for which A stores a block
                            bs = [s_ for s_ in fam.sectors_of(sym, bix, qb) if s_[0] in rows]
                            if not bs:
                                continue
                            if fermionic:
                                A = dict(A, phases=tuple(p[:1]) if len(sv) % 2 else ())
                            B = dict(sym=sym, generic=generic, fermionic=fermionic, indices=bix, charge=qb, present=tuple(bs), phases=tuple(bs[:1]) if (fermionic and len(sv) % 3 == 0) else (),
                                     oddpos=(2 if fermionic and gs.parity(sym, qb) else None), name="b")
                            sv.append(dict(a=A, b=B))
        sv, _ = fam.thin(sv, 300 if not thorough else 3000, seed + 8)
        groups[f"solve/{nm}"] = ([dict(body="body_solve", spec=c, sample=(i % 100 == 0), seed=seed + i) for i, c in enumerate(sv)], False)
    return groups


def classify(v):
    import re
    a = ((v.get("spec") or {}).get("a") or {})
    tags = {"op": re.sub(r"[\[:@].*", "", str(v.get("name", ""))), "fermionic": bool(a.get("fermionic"))}
    if str(v.get("group", "")).startswith("solve"):
        tags["op"] = "solve"  # (a numeric falsification may surface the same finding as an exception inside a @ x)
    if a.get("fermionic") and "sym" in a:
        tags["a_odd"] = bool(gs.parity(a["sym"], a["charge"]))
    return tags


def run(tier, seed, only=None):
    rep = Report(PID, tier, seed)
    rep.explanation = (
        "Bounded symbolic checking with contract stubs for LAPACK: numpy.linalg.qr/svd/eigh/solve on object arrays return fresh symbolic factors "
        "constrained only by their documented contract (orthonormality, triangularity, ordering, reconstruction); the library's own block bookkeeping, sign "
        "handling (stabilised QR on the real _sgn path with abs decided three-way by the path controller; fermionic bond signs), bond-index construction and "
        "charge arithmetic then run for real. Obligations, decided by z3 under the contracts: factors multiply back to the input coordinate-wise through the "
        "library's own contraction/diagonal multiplication; Q/U blocks have orthonormal columns and V^H blocks orthonormal rows; R blocks are upper triangular "
        "(non-negative diagonal on stored blocks when stabilised); singular values non-negative and non-increasing per charge; the bond has opposite directions "
        "on the two factors, one charge per input block with size = number of columns, the right factor has zero charge; solve: charge = b - a, index = conj of "
        "A's column index, A @ x = b.")
    rep.rule = "case = (matrix structure incl. direct/fused, sparsity, pending signs, labels; options); non-trivial = produced obligations"
    rep.functions = ["symmray.linalg.qr/_get_qr_fn/qr_fermionic", "svd/svd_fermionic", "eigh/eigh_fermionic", "solve/solve_fermionic", "autoray.do('linalg.qr'|'linalg.svd'|'linalg.eigh')",
                     "AbelianArray.multiply_diagonal, __matmul__, tensordot underneath"]
    rep.bounds = {"block shapes": "<= 2x2 per sector (1x1,1x2,2x1,2x2; tall/wide/square)", "sectors": "<=4 per matrix", "matrices": "2-leg arrays and 3-leg arrays fused over (0,1)/(1,2)",
                  "stabilised QR": "real entries only"}
    rep.stubs = stubs.STUB_TEXT
    rep.assumptions = ["LAPACK satisfies its documented contract", "solve: blocks of A invertible (det != 0)", "division denominators non-zero (stabilised QR: _sgn)"]
    rep.outside = ["blocks larger than 2x2", "rounding / rank-deficient pivots in floating point", "stabilised QR with complex data"]
    groups = build_family(tier, seed)
    run_groups(rep, groups, _run, only)
    return rep.finish(classify)
