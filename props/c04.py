"""C04 — a fermionic network's value does not depend on how it is contracted (engine B + A)."""
import itertools
import os
import random

import numpy as np

from vlib import env  # noqa
import symmray as sr

from vlib import families as fam
from vlib import graded
from vlib import oracle as orc
from vlib import sym as gs
from vlib import xh
from vlib import zt
from vlib.build import build
from vlib.driver import Report
from vlib.par import pmap, run_groups
from vlib.session import run_case, Violation

PID = "C04"

# network shapes: tensor -> leg names; a name shared by two tensors is a bond, otherwise dangling
SHAPES = {
    "pair-double": [["x", "y"], ["x", "y"]],
    "pair-double-dangling": [["i", "x", "y"], ["y", "x", "j"]],
    "pair-single": [["i", "x"], ["x", "j"]],
    "chain3-closed": [["x"], ["x", "y"], ["y"]],
    "chain3-open": [["i", "x"], ["x", "y"], ["y", "k"]],
    "chain3-mid-dangling": [["x"], ["x", "j", "y"], ["y"]],
    "triangle": [["x", "z"], ["x", "y"], ["y", "z"]],
    "triangle-dangling": [["x", "z", "i"], ["x", "y"], ["y", "z"]],
    "chain4-closed": [["x"], ["x", "y"], ["y", "z"], ["z"]],
    "chain4-open": [["i", "x"], ["x", "y"], ["y", "z"], ["z", "l"]],
    "square": [["x", "w"], ["x", "y"], ["y", "z"], ["z", "w"]],
}


def gen_routes(n, legs, rng, limit):
    """all (or a seeded sample of) pairwise contraction routes: list of steps (i, j, swap, axes_perm_seed)"""
    if n > 3:
        # too many to enumerate: draw routes directly (seeded), first one deterministic left-to-right
        routes = []
        seen = set()
        tries = 0
        while len(routes) < limit and tries < limit * 20:
            tries += 1
            cur = [list(l) for l in legs]
            steps = []
            first = not routes
            while len(cur) > 1:
                pairs = list(itertools.combinations(range(len(cur)), 2))
                # prefer connected pairs (outer products are still drawn now and then)
                conn = [(i, j) for i, j in pairs if any(l in cur[j] for l in cur[i])]
                i, j = pairs[0] if first else rng.choice(conn if (conn and rng.random() < 0.85) else pairs)
                if first and conn:
                    i, j = conn[0]
                swap = False if first else rng.random() < 0.5
                a, b = (cur[j], cur[i]) if swap else (cur[i], cur[j])
                shared = [l for l in a if l in b]
                p = tuple(range(len(shared)))
                if not first and len(shared) > 1:
                    p = tuple(rng.sample(range(len(shared)), len(shared)))
                new = [l for l in a if l not in shared] + [l for l in b if l not in shared]
                cur = [c for k, c in enumerate(cur) if k not in (i, j)] + [new]
                steps.append((i, j, swap, p))
            t = tuple(steps)
            if t not in seen:
                seen.add(t)
                routes.append(t)
        return routes, False
    routes = []

    def rec(cur, steps):
        if len(cur) == 1:
            routes.append(tuple(steps))
            return
        for i, j in itertools.combinations(range(len(cur)), 2):
            shared = [l for l in cur[i] if l in cur[j]]
            perms = list(itertools.permutations(range(len(shared)))) or [()]
            for swap in (False, True):
                for p in perms:
                    a, b = (cur[j], cur[i]) if swap else (cur[i], cur[j])
                    new = [l for l in a if l not in shared] + [l for l in b if l not in shared]
                    rest = [c for k, c in enumerate(cur) if k not in (i, j)]
                    rec(rest + [new], steps + [(i, j, swap, p)])

    rec([list(l) for l in legs], [])
    if len(routes) > limit:
        keep = [routes[0]] + rng.sample(routes[1:], limit - 1)
        return keep, False
    return routes, True


def run_route(tensors, legs, route, pretrans=None, scalar_last=False):
    """contract library arrays along a route; -> (result, leg names)"""
    cur = [(t, list(l)) for t, l in zip(tensors, legs)]
    if pretrans:
        new = []
        for (t, l), p in zip(cur, pretrans):
            if p is not None and t.ndim == len(p):
                # (every other tensor is reversed with the *default* axes argument, the rest with explicit axes)
                # (... spelled with a mix of negative and non-negative axis numbers: the same permutation)
                t = t.transpose(None) if (len(new) % 2 == 0) else t.transpose(tuple((a - t.ndim) if k % 2 == 0 else a for k, a in enumerate(p)))
                l = [l[a] for a in p]
            new.append((t, l))
        cur = new
    for (i, j, swap, p) in route:
        (ta, la), (tb, lb) = (cur[j], cur[i]) if swap else (cur[i], cur[j])
        shared = [l for l in la if l in lb]
        shared = [shared[k] for k in p] if p else shared
        axa = tuple(la.index(s) for s in shared)
        axb = tuple(lb.index(s) for s in shared)
        last = len(cur) == 2
        c = sr.tensordot(ta, tb, axes=(axa, axb), preserve_array=not (scalar_last and last))
        lc = [l for l in la if l not in shared] + [l for l in lb if l not in shared]
        cur = [c2 for k, c2 in enumerate(cur) if k not in (i, j)] + [(c, lc)]
    return cur[0]


def oracle_network(gts, legs, route):
    cur = [(g, list(l)) for g, l in zip(gts, legs)]
    for (i, j, swap, p) in route:
        (ga, la), (gb, lb) = (cur[j], cur[i]) if swap else (cur[i], cur[j])
        shared = [l for l in la if l in lb]
        axa = [la.index(s) for s in shared]
        axb = [lb.index(s) for s in shared]
        g = graded.contract(ga, gb, axa, axb)
        lc = [l for l in la if l not in shared] + [l for l in lb if l not in shared]
        cur = [c2 for k, c2 in enumerate(cur) if k not in (i, j)] + [(g, lc)]
    return cur[0]


def normal_form(G, labs):
    """annihilate every conjugate label pair, order the rest deterministically"""
    rest = list(labs)
    while True:
        hit = None
        for i, a in enumerate(rest):
            for j, b in enumerate(rest):
                if i < j and a[0] == b[0] and a[1] != b[1]:
                    hit = (i, j)
                    break
            if hit:
                break
        if not hit:
            break
        del rest[hit[1]]
        del rest[hit[0]]
    target = tuple(sorted(rest, key=repr))
    return graded.canon_labels(G, target), target


def body_network(S, spec):
    tensors = [build(S, t) for t in spec["tensors"]]
    legs = spec["legs"]
    dangling = sorted({l for ls in legs for l in ls if sum(l in m for m in legs) == 1})
    ref = None
    for r, route in enumerate(spec["routes"]):
        pre = spec["pretrans"] if (r % 2 == 1) else None
        c, lc = run_route(tensors, legs, route, pre)
        probs = orc.audit(c)
        S.require(f"route{r}:valid", not probs, "; ".join(probs[:2]))
        if not dangling:
            # closed network: the default call returns a bare scalar; it must be the array form's value
            v, _ = run_route(tensors, legs, route, pre, scalar_last=True)
            S.require(f"route{r}:scalar-kind", not isinstance(v, sr.AbelianArray), "array returned for a full contraction")
            S.equal(f"route{r}:scalar", v, orc.coords(c).get((), 0))
        G = graded.from_array(c)
        nd = G.ndummy()
        G = G.permute(list(range(nd)) + [nd + lc.index(l) for l in dangling])
        labs = orc.labels_of(c)
        for a_, b_ in zip(labs, labs[1:]):
            # an adjacent conjugate pair is a contractible bra-ket pair and must have been evaluated
            S.require(f"route{r}:no-adjacent-conjugates", not (a_[0] == b_[0] and a_[1] != b_[1]), f"adjacent conjugate labels left: {labs}")
        if spec.get("conj_labels"):
            # networks holding conjugate labels: the library may leave *non-adjacent* conjugate pairs on an
            # intermediate along some routes; values are compared in the fully annihilated normal form
            # (the statement's label clause speaks of distinct labels)
            G, labs = normal_form(G, labs)
        if ref is None:
            ref = (G, labs)
            continue
        S.require(f"route{r}:labels", labs == ref[1], f"labels {labs} along route {route} but {ref[1]} along route {spec['routes'][0]}")
        for k in set(G.el) | set(ref[0].el):
            S.equal(f"route{r}@{k}", G.el.get(k, 0), ref[0].el.get(k, 0))
    # independent graded-tensor value of the network (fixed route), in the library's label order
    gts = [graded.from_array(t) for t in tensors]
    T, lt = oracle_network(gts, legs, spec["routes"][0])
    nd = T.ndummy()
    T = T.permute(list(range(nd)) + [nd + lt.index(l) for l in dangling])
    try:
        T = graded.canon_labels(T, ref[1])
    except graded.LabelMismatch as e:
        raise Violation("oracle:labels", str(e))
    for k in set(T.el) | set(ref[0].el):
        S.equal(f"oracle@{k}", ref[0].el.get(k, 0), T.el.get(k, 0))
    # all at once vs one after another (pairs with a double bond): contract one bond, trace the other
    if spec.get("double"):
        a, b = tensors
        la, lb = legs
        shared = [l for l in la if l in lb]
        full = sr.tensordot(a, b, axes=(tuple(la.index(s) for s in shared), tuple(lb.index(s) for s in shared)), preserve_array=True)
        s0 = shared[0]
        part = sr.tensordot(a, b, axes=((la.index(s0),), (lb.index(s0),)), preserve_array=True)
        lp = [l for l in la if l != s0] + [l for l in lb if l != s0]
        letters = {}
        eq_in = ""
        for l in lp:
            letters.setdefault(l, "abcdefgh"[len(letters)])
            eq_in += letters[l]
        out_legs = [l for l in lp if lp.count(l) == 1]
        eq = eq_in + "->" + "".join(letters[l] for l in out_legs)
        step = part.einsum(eq, preserve_array=True)
        lf = [l for l in la if l not in shared] + [l for l in lb if l not in shared]
        S.require("stepwise:labels", orc.labels_of(step) == orc.labels_of(full), f"{orc.labels_of(step)} vs {orc.labels_of(full)}")
        cf, cs = orc.coords(full), orc.coords(step)
        # einsum output order = out_legs; full order = lf (identical by construction)
        S.require("stepwise:legs", out_legs == lf, "leg order")
        for k in set(cf) | set(cs):
            S.equal(f"stepwise@{k}", cs.get(k, 0), cf.get(k, 0))
    if S.mode == "sym" and ref[0].el:
        k0 = next(iter(ref[0].el))
        S.canary("shifted", ref[0].el[k0], ref[0].el[k0] + 1)


BODIES = {"body_network": body_network}


def _run(case):
    return run_case(body_network, case["spec"], complex_=False, validate=case.get("validate", False),
                    want_sample=case.get("sample", False), seed=case.get("seed", 0), wall_limit=120)


LABEL_SCHEMES = [
    lambda k: k + 1,                     # ascending ints
    lambda k: 10 - k,                    # descending ints
    lambda k: [2, 1, 3, 0][k % 4],       # non-monotone
    lambda k: "cabd"[k % 4],             # strings
    lambda k: (1 - k % 2, k),            # tuples
]


def make_networks(sym, shape_name, rng, nmax, sizes=(1,), generic=False, conj_labels=False):
    legs = SHAPES[shape_name]
    names = sorted({l for ls in legs for l in ls})
    uni = fam.UNIVERSE[sym]
    cm_opts = [tuple((c, sizes[i % len(sizes)]) for i, c in enumerate(uni[:2]))]
    if sym == "U1":
        cm_opts.append(tuple((c, 1) for c in uni[:3]))
    if sym in ("Z2Z2", "U1U1"):
        # legs carrying the (1,1) charge: even for Z2Z2/U1U1 although both components are odd
        cm_opts.append(tuple((c, 1) for c in (uni[1], uni[3])))
        cm_opts.append(tuple((c, 1) for c in (uni[0], uni[3])))
    out = []
    # orientation of each leg name on its first tensor
    for orient in itertools.product((False, True), repeat=len(names)):
        cmi = {n: cm_opts[(k + sum(orient)) % len(cm_opts)] for k, n in enumerate(names)}
        ixs_per_tensor = []
        seen = set()
        for ls in legs:
            ixs = []
            for l in ls:
                d = orient[names.index(l)]
                if l in seen:
                    d = not d
                ixs.append((cmi[l], d))
            for l in ls:
                seen.add(l)
            ixs_per_tensor.append(tuple(ixs))
        charge_opts = [fam.possible_charges(sym, ixs) for ixs in ixs_per_tensor]
        for qs in itertools.product(*charge_opts):
            out.append((ixs_per_tensor, qs))
    rng.shuffle(out)
    nets = []
    for k, (ixs_per_tensor, qs) in enumerate(out[:nmax]):
        scheme = LABEL_SCHEMES[k % len(LABEL_SCHEMES)]
        tensors = []
        for t, (ixs, q) in enumerate(zip(ixs_per_tensor, qs)):
            secs = fam.sectors_of(sym, ixs, q)
            pres = tuple(secs)
            if len(secs) > 1 and k % 3 == 0:
                pres = tuple(s for i, s in enumerate(secs) if i != (k + t) % len(secs))
            ph = tuple(pres[:1]) if (k + t) % 2 else ()
            odd = gs.parity(sym, q)
            lab = scheme(t) if odd else None
            if odd and conj_labels and t >= len(ixs_per_tensor) // 2 + len(ixs_per_tensor) % 2:
                # second half of the tensors carries the conjugates of the first half's labels (as a bra layer does)
                lab = [(scheme(len(ixs_per_tensor) - 1 - t), True)]
            tensors.append(dict(sym=sym, generic=generic, fermionic=True, indices=ixs, charge=q, present=pres, phases=ph,
                                oddpos=lab, name=f"t{t}"))
        nets.append((tensors, legs))
    return nets


def build_family(tier, seed):
    rng = random.Random(seed)
    thorough = tier == "thorough"
    groups = {}
    for sym, generic in [("Z2", False), ("U1", False), ("Z2Z2", False), ("U1U1", False)] + ([("Z2", True), ("Z2Z2", True)] if thorough else []):
        for shape in SHAPES:
            n = len(SHAPES[shape])
            if n == 4 and not thorough and shape != "chain4-closed":
                continue
            nmax = {2: 120, 3: 80, 4: 40}[n] if not thorough else {2: 600, 3: 500, 4: 300}[n]
            cases = []
            for conj in (False, True):
                nets = make_networks(sym, shape, rng, nmax if not conj else nmax // 2, sizes=(1,) if not thorough else (1, 2), generic=generic, conj_labels=conj)
                for tensors, legs in nets:
                    routes, ex = gen_routes(n, legs, rng, {2: 8, 3: 14, 4: 16}[n] if not thorough else {2: 8, 3: 30, 4: 40}[n])
                    pre = tuple((tuple(reversed(range(len(l)))) if len(l) > 1 else None) for l in legs)
                    cases.append(dict(tensors=tensors, legs=legs, routes=routes, pretrans=pre, double=shape.startswith("pair-double"),
                                      exhaustive_routes=ex, conj_labels=conj))
            nm = f"{shape}/{sym}{'-generic' if generic else ''}"
            groups[nm] = ([dict(body="body_network", spec=c, validate=(i % 40 == 0), sample=(i % 100 == 0), seed=seed + i)
                           for i, c in enumerate(cases)], False)
    return groups


def run(tier, seed, only=None):
    rep = Report(PID, tier, seed)
    rep.explanation = (
        "Bounded symbolic checking: for every enumerated network (shape, bond orientations, charges/parities, labels incl. conjugate labels, sparsity, "
        "pending signs) the real tensordot is chained along every (or a seeded sample of) pairwise contraction route, operand order, axis-pair listing and "
        "with fermionic pre-transposes; all routes must give identical polynomials element for element (after the oracle's graded permutation to a fixed "
        "leg order) and identical label tuples, equal to an independent graded-tensor evaluation of the network; double bonds are also contracted one after "
        "another (tensordot then einsum trace). CrossHair proves the label order is a strict total order for unbounded labels and that label resolution "
        "returns sorted labels without adjacent conjugate pairs and the independent sign.")
    rep.rule = "case = (network structure, tensors' structures and labels, list of routes); non-trivial = produced obligations"
    rep.functions = ["tensordot_fermionic chained", "resolve_combined_oddpos", "FermionicOperator.__lt__/__eq__/dag", "oddpos_parse", "oddpos_dag",
                     "FermionicArray.phase_global/transpose/einsum"]
    rep.bounds = {"tensors": "2-3 (4: closed chain in quick; all 4-shapes in thorough)", "leg charges": "2 (3 for some U1 legs)", "block sizes": "1 (1..2 thorough)",
                  "routes": "all for 2 tensors; seeded sample of <=14/16 (30/40 thorough) for 3/4 tensors"}
    rep.outside = ["networks with more than 4 tensors", "routes not sampled (reported exhaustive=false)"]
    groups = build_family(tier, seed)
    run_groups(rep, groups, _run, only)
    if not only or "xh" in only:
        res, herr = xh.run_all(os.path.join(env.VERIF, "harness", "h_c04.py"), timeout=200 if tier == "quick" else 600)
        rep.add_xh(res)
        rep.harness_errors += herr
        rep.violations += xh.violations_from(res, PID)
    return rep.finish()
