"""C01 — every result is a valid symmetric array: one inductive step from arbitrary audited
pre-states (engine B for the operations, engine A for the unbounded-charge lemmas)."""
import itertools
import os
import random

import numpy as np

from vlib import env  # noqa
import symmray as sr

from vlib import families as fam
from vlib import ops
from vlib import oracle as orc
from vlib import sym as gs
from vlib import xh
from vlib import zt
from vlib.build import build
from vlib.driver import Report
from vlib.par import pmap, run_groups
from vlib.session import run_case, Violation

PID = "C01"


def audit_result(S, name, r):
    if isinstance(r, sr.AbelianArray):
        probs = orc.audit(r)
        S.require(name + ":valid", not probs, "; ".join(probs[:3]))
        S.holds(name + ":audited", True)
    elif isinstance(r, sr.BlockVector):
        probs = orc.audit_vector(r)
        S.require(name + ":valid-vector", not probs, "; ".join(probs[:3]))
        S.holds(name + ":audited", True)
    elif isinstance(r, (tuple, list)):
        for i, x in enumerate(r):
            audit_result(S, f"{name}[{i}]", x)


def body_unary(S, spec):
    x = build(S, spec["a"])
    pre = orc.audit(x)
    if pre:
        raise zt.HarnessError(f"pre-state not valid: {pre[:2]}")
    for name, args in spec["ops"]:
        try:
            r = ops.apply_unary(S, x, name, args)
        except zt.Abort:
            raise
        except Exception as e:
            S.note(f"raised:{name}:{type(e).__name__}")
            continue
        try:
            audit_result(S, f"{name}{args}", r)
        except Violation as v:
            S.structural.append((v.name, v.detail))
            continue
        if name == "fuse":
            # warm fuse cache, then the conjugate (same sectors, opposite directions) fused over the same groups
            try:
                xc = x.conj()
                r3 = xc.fuse(*args[0]) if args[1] is None else xc.fuse(*args[0], mode=args[1])
                audit_result(S, f"conj+{name}{args}", r3)
            except Violation as v:
                S.structural.append((v.name, v.detail))
            except zt.Abort:
                raise
            except Exception as e:
                S.note(f"raised:conj+{name}:{type(e).__name__}")
        # and one more step from the result (programs of length two), for structure-changing ops
        if isinstance(r, sr.AbelianArray) and name in ("fuse", "reshape", "conj", "dagger", "transpose", "sync_charges", "expand_dims", "multiply_diagonal"):
            for n2, a2 in (("conj", (True, True) if r.fermionic else ()), ("transpose", (None,)), ("unfuse_all", ()), ("sync_charges", ())):
                try:
                    r2 = r.unfuse_all() if n2 == "unfuse_all" else ops.apply_unary(S, r, n2, a2)
                except zt.Abort:
                    raise
                except Exception as e:
                    S.note(f"raised:{name}+{n2}:{type(e).__name__}")
                    continue
                try:
                    audit_result(S, f"{name}{args}+{n2}", r2)
                except Violation as v:
                    S.structural.append((v.name, v.detail))
    post = orc.audit(x)
    S.require("operand-still-valid", not post, "; ".join(post[:2]))


def body_binary(S, spec):
    a = build(S, spec["a"])
    b = build(S, spec["b"])
    for p in (orc.audit(a), orc.audit(b)):
        if p:
            raise zt.HarnessError(f"pre-state not valid: {p[:2]}")
    for name, args in spec["ops"]:
        try:
            r = ops.apply_binary(S, a, b, name, args)
        except zt.Abort:
            raise
        except Exception as e:
            S.note(f"raised:{name}:{type(e).__name__}")
            continue
        try:
            audit_result(S, f"{name}{args}", r)
            if name == "tensordot" and isinstance(r, sr.AbelianArray):
                want = gs.combine(spec["a"]["sym"], [spec["a"]["charge"], spec["b"]["charge"]])
                S.require(f"{name}{args}:charge", r.charge == want, f"charge {r.charge!r} != combine = {want!r}")
        except Violation as v:
            S.structural.append((v.name, v.detail))


BODIES = {"body_unary": body_unary, "body_binary": body_binary}


def _run(case):
    return run_case(BODIES[case["body"]], case["spec"], complex_=case.get("complex", False), validate=False,
                    want_sample=case.get("sample", False), seed=case.get("seed", 0))


CLASSES = [("Z2", False, False), ("U1", False, False), ("Z2Z2", False, False), ("U1U1", False, False), ("Z4", True, False), ("U1", True, False),
           ("Z2", False, True), ("U1", False, True), ("Z2Z2", False, True), ("U1U1", False, True), ("Z2", True, True)]


def build_family(tier, seed):
    rng = random.Random(seed)
    thorough = tier == "thorough"
    groups = {}
    for sym, generic, fermionic in CLASSES:
        two, one = fam.std_tables(sym, thorough, n_two=2, n_one=1)
        nm = f"{sym}{'-generic' if generic else ''}{'-fermionic' if fermionic else ''}"
        cases = []
        for nd in (1, 2, 3) + ((4,) if thorough else ()):
            tb = (two + one) if nd <= 2 else (two[:2] + one[:1] if nd == 3 else two[:1] + one[:1])
            arrs = list(fam.array_specs(sym, nd, tb, fermionic=fermionic, generic=generic, sparsity_threshold=3,
                                        phases=fermionic, rng=rng, labels=(7,)))
            arrs, ex = fam.thin(arrs, {1: None, 2: 400, 3: 300, 4: 100}[nd] if not thorough else {1: None, 2: None, 3: 3000, 4: 600}[nd], seed + nd)
            for a in arrs:
                ol = ops.gen_unary(a, "quick" if not thorough else "thorough")
                heavy = [o for o in ol if o[0] in ("qr", "svd", "svd_truncated")]  # these fork on data: one case each
                ol = [o for o in ol if o not in heavy]
                # split the op list so that one case stays short
                for k in range(0, len(ol), 25):
                    cases.append(dict(a=a, ops=tuple(ol[k:k + 25])))
                for o in heavy:
                    cases.append(dict(a=a, ops=(o,)))
        # pre-fused and fused-then-sparsified pre-states
        base = list(fam.array_specs(sym, 3, two[:2], fermionic=fermionic, generic=generic, sparsity_threshold=3, phases=False, rng=rng, labels=(7,)))
        base, _ = fam.thin(base, 80 if not thorough else 800, seed + 9)
        for a in base:
            for pre in (((0, 1),), ((2, 1),), ((1, 2),)):
                a2 = dict(a, prefuse=(pre,))
                # ops are generated for the *fused* rank-2 structure: use a rank-2 stand-in for sizes
                ol = [("copy", ()), ("transpose", ((1, 0),)), ("transpose", (None,)), ("conj", (True, True) if fermionic else ()),
                      ("dagger", (True,) if fermionic else ()), ("fuse", (((0, 1),), None if fermionic else "insert")),
                      ("fuse", (((1, 0),), None if fermionic else "concat")), ("fuse_unfuse", (((0, 1),),)), ("sync_charges", ()),
                      ("fill_missing_blocks", ()), ("mul_scalar", ()), ("norm", ()), ("to_dense", ()), ("reshape", ((-1,),)),
                      ("expand_dims", (1, None, None)), ("squeeze", (None,))]
                cases.append(dict(a=a2, ops=tuple(ol)))
                for k in (0, 1, 2):
                    cases.append(dict(a=dict(a2, drop_after_k=(k,)), ops=tuple(ol)))
        # matrices with unequal sector ranks for the decompositions (bond limits that do not divide evenly)
        uni = fam.UNIVERSE[sym]
        mt = [((uni[0], 1), (uni[1], 2)), ((uni[0], 2), (uni[1], 1)), ((uni[0], 2), (uni[1], 2)), ((uni[0], 3), (uni[1], 1))]
        for a in fam.array_specs(sym, 2, mt, fermionic=fermionic, generic=generic, sparsity_threshold=2, phases=False, rng=rng, labels=(7,)):
            if len(cases) % 3 == 0:
                for o in (("svd_truncated", (1,)), ("svd_truncated", (2,)), ("svd_truncated", (3,)), ("qr", (False,)), ("svd", ())):
                    cases.append(dict(a=a, ops=(o,)))
            else:
                cases.append(dict(a=a, ops=(("svd_truncated", (2 + len(cases) % 2,)),)))
        cases, ex = fam.thin(cases, 7000 if not thorough else 70000, seed)
        groups[f"unary/{nm}"] = ([dict(body="body_unary", spec=c, sample=(i % 2500 == 0), seed=seed + i) for i, c in enumerate(cases)], False)
        # binary
        bc = []
        for na, nb in [(1, 1), (2, 1), (1, 2), (2, 2), (3, 2), (2, 3)] + ([(3, 3)] if thorough else []):
            tb = two[:2] + one[:1]
            structs = fam.pair_structs(sym, na, nb, tb if na + nb <= 4 else two[:1] + one[:1], two[:1] + one[:1])
            structs, _ = fam.thin(structs, 120 if not thorough else 1200, seed + na * 7 + nb)
            for st in structs:
                for A, B, axes, ex2 in fam.expand_pair(sym, st, rng, generic=generic, fermionic=fermionic, max_pairs=3, phases=fermionic, max_phase=2):
                    bc.append(dict(a=A, b=B, ops=tuple(ops.gen_binary(A, B, axes))))
        # same-structure pairs for + - *
        for nd in (1, 2):
            for ixs in fam.index_structs(sym, nd, two[:2] + one[:1]):
                ixs = tuple(ixs)
                for q in fam.possible_charges(sym, ixs):
                    secs = fam.sectors_of(sym, ixs, q)
                    pa, _ = fam.subsets(secs, 3, rng)
                    for pra, prb in list(itertools.product(pa, pa))[:9]:
                        A = dict(sym=sym, generic=generic, fermionic=fermionic, indices=ixs, charge=q, present=tuple(pra), phases=tuple(pra[:1]) if fermionic else (),
                                 oddpos=(3 if fermionic and gs.parity(sym, q) else None), name="a")
                        B = dict(A, present=tuple(prb), phases=(), name="b")
                        bc.append(dict(a=A, b=B, ops=tuple(ops.gen_same_shape_binary())))
        bc, _ = fam.thin(bc, 5000 if not thorough else 50000, seed + 1)
        groups[f"binary/{nm}"] = ([dict(body="body_binary", spec=c, sample=(i % 2500 == 0), seed=seed + i) for i, c in enumerate(bc)], False)
    return groups


def classify(v):
    import re
    name = str(v.get("name", ""))
    tags = {"op": re.sub(r"[\(\[].*", "", name)}
    d = str(v.get("detail", ""))
    if "odd-position labels but charge parity" in d:
        tags["problem"] = "oddpos-parity"
    tags["first_op_only"] = "+" not in name.split(":")[0]
    if tags["op"] == "expand_dims":
        m = re.match(r"expand_dims\((-?\d+), (.*), (True|False|None)\)", name)
        spec = v.get("spec") or {}
        # only the documented situation: an explicit odd-parity charge was inserted
        if not m or m.group(2) == "None":
            tags["problem"] = tags.get("problem", "") + "-default-charge"
    return tags


def run(tier, seed, only=None):
    rep = Report(PID, tier, seed)
    rep.explanation = (
        "One inductive step of the validity invariant: for every enumerated *arbitrary audited pre-state* (built directly through the constructors: "
        "symmetry/class, index tables, directions, charge, sparsity, pending signs, labels, pre-fused legs) and every public operation with its arguments, "
        "the real code runs on z3-term data and each returned array must pass an independent audit written from the property statement (and, for "
        "structure-changing ops, a second step from the result). Data never influences structure for these ops, so the audit on symbolic data covers all values. "
        "CrossHair proves the sector-validity rule and 'contraction closes' for unbounded U1/U1U1 charges and all Z4 charges.")
    rep.rule = "case = (pre-state, batch of <=25 op instances); non-trivial = at least one returned array was audited"
    rep.functions = ["every public method of AbelianArray/FermionicArray listed in vlib/ops.py (copy, transpose, conj, dagger, fuse, unfuse, reshape, squeeze, expand_dims, "
                     "scalar arithmetic, phase_*, sync_charges, fill_missing_blocks, multiply_diagonal, trace, einsum, tensordot in 3 modes, @, align_axes, + - *)",
                     "AbelianArray.is_valid_sector", "Symmetry.combine/sign", "without"]
    rep.bounds = {"rank": "<=3 (4 thorough)", "charges_per_index": "<=2", "block_sizes": "1..2", "classes": [f"{s}{'-generic' if g else ''}{'-fermionic' if f else ''}" for s, g, f in CLASSES],
                  "program length": "1 (2 for structure-changing ops) from arbitrary audited pre-states"}
    rep.outside = ["eigh/solve results are audited under C11 (qr/svd/svd_truncated are swept here through the LAPACK contract stubs)", "states larger than the bound; torch/jax blocks; non-finite data", "drop_missing_blocks (data-dependent, in-place only)"]
    groups = build_family(tier, seed)
    run_groups(rep, groups, _run, only)
    if not only or "xh" in only:
        res, herr = xh.run_all(os.path.join(env.VERIF, "harness", "h_c01.py"), timeout=150 if tier == "quick" else 400)
        rep.add_xh(res)
        rep.harness_errors += herr
        rep.violations += xh.violations_from(res, PID)
    return rep.finish(classify)
