"""C07 — reshape only regroups axes and is undone by reshaping back (engine A + B)."""
import itertools
import os
import random

import numpy as np

from vlib import env  # noqa
import symmray as sr
import autoray as ar

from vlib import families as fam
from vlib import ops
from vlib import oracle as orc
from vlib import sym as gs
from vlib import xh
from vlib import zt
from vlib.build import build
from vlib.driver import Report
from vlib.par import pmap, run_groups
from vlib.session import run_case, Violation

PID = "C07"


def total_sizes(x):
    return tuple(sum(ix.chargemap.values()) for ix in x.indices)


def content_preserved(S, name, x, y):
    """every input variable occurs exactly once (up to sign) among y's stored entries, the rest is zero"""
    cx, cy = orc.coords(x), orc.coords(y)
    xs = list(cx.values())
    n2x = 0
    for v in xs:
        n2x = n2x + v * v
    n2y = 0
    for e in cy.values():
        n2y = n2y + e * e
    S.equal(name + ":norm^2", n2y, n2x)
    if S.mode == "sym":
        import z3
        for k, e in cy.items():
            er = zt.parts(e)[0]
            alts = [er == 0]
            for v in xs:
                vr = zt.parts(v)[0]
                alts += [er == vr, er == -vr]
            S.holds(f"{name}:entry-is-input@{k}", z3.Or(*alts))
    else:
        mags = sorted(abs(v) for v in xs)
        got = sorted(abs(e) for e in cy.values() if abs(e) > 1e-12)
        S.holds(name + ":magnitudes", len(mags) == len(got) and all(abs(a - b) < 1e-9 for a, b in zip(sorted(m for m in mags if m > 1e-12), got)))


def same_value(S, name, a, b):
    S.require(name + ":indices", [orc.index_sig(i) for i in a.indices] == [orc.index_sig(i) for i in b.indices], "indices differ")
    S.require(name + ":charge", a.charge == b.charge, f"{a.charge!r} vs {b.charge!r}")
    if orc.is_fermionic(a):
        S.require(name + ":labels", orc.labels_of(a) == orc.labels_of(b), "labels differ")
    ca, cb = orc.coords(a), orc.coords(b)
    for k in set(ca) | set(cb):
        S.equal(f"{name}@{k}", ca.get(k, 0), cb.get(k, 0))


def body_reshape(S, spec):
    x = build(S, spec["a"])
    shape = x.shape
    S.require("shape-attr", tuple(shape) == total_sizes(x), f"shape {shape} vs index sizes {total_sizes(x)}")
    targets = spec["targets"]
    if spec["a"].get("prefuse"):
        # the shape of a pre-fused (sparse) array is only known after fusing: merge/drop targets of the *current* shape
        targets = tuple(ops.reshape_targets(list(shape), max_targets=8)) + ((-1,),)
    # known finding: the axis-matching routine tests "can this fused axis be unfused into the next target entries"
    # before "is this axis already the requested size"; when an array already has the requested shape and the sub-sizes of
    # one of its fused axes coincide with the shape entries at that position, it is unfused (or the scan fails)
    def sub_sizes(ix):
        return tuple(sum(s.chargemap.values()) for s in ix.subinfo.indices)
    trig = any(ix.subinfo is not None and sub_sizes(ix) == tuple(shape[i:i + len(ix.subinfo.indices)]) for i, ix in enumerate(x.indices))
    for t in targets:
        tag = f"reshape{t}"
        if trig and tuple(t) == tuple(shape):
            tag = "idfused:" + tag
        try:
            y = x.reshape(t)
        except zt.Abort:
            raise
        except Exception as e:
            S.structural.append((f"{tag}:raised:{type(e).__name__}", str(e)))
            continue
        try:
            _check_target(S, tag, x, y, t, shape)
            if not trig and not spec["a"].get("prefuse"):
                # the conjugate (same sectors, opposite directions) reshaped the same way right after: must not inherit x's plan
                xc = x.conj()
                yc = xc.reshape(t)
                content_preserved(S, tag + ":conj-sibling", xc, yc)
                same_value(S, tag + ":conj-sibling:back", yc.reshape(shape), xc)
        except Violation as v:
            S.structural.append((v.name, v.detail))
        except zt.Abort:
            raise
        except Exception as e:
            # (for arrays in the known-finding situation the reverse trip meets the same scan failure)
            S.structural.append((("idfused:" if trig and not tag.startswith("idfused:") else "") + f"{tag}:back-raised:{type(e).__name__}", str(e)))
    if not trig and spec.get("expand", True):
        _expansions(S, x, tuple(shape), sub_sizes)
    _identity(S, x, shape, trig)
    if S.mode == "sym":
        cx = orc.coords(x)
        if cx:
            k0 = next(iter(cx))
            S.canary("shifted", cx[k0], cx[k0] + 1)


def _check_target(S, tag, x, y, t, shape):
    if True:
        S.require(tag + ":rank", y.ndim == len(t), f"rank {y.ndim} for target {t}")
        probs = orc.audit(y)
        S.require(tag + ":valid", not probs, "; ".join(probs[:2]))
        S.require(tag + ":not-larger", all(d <= r for d, r in zip(total_sizes(y), t) if r >= 0), f"axes {total_sizes(y)} larger than requested {t}")
        content_preserved(S, tag, x, y)
        z = y.reshape(shape)
        same_value(S, tag + ":back", z, x)
        y2 = sr.reshape(x, t)
        y3 = ar.do("reshape", x, t)
        same_value(S, tag + ":fn", y2, y)
        same_value(S, tag + ":ar", y3, y)


def _expansions(S, x, shape, sub_sizes):
    """targets that are *not* reachable by merging/dropping: a new size-one axis at every position, alone or in the same call that
    splits an already-fused axis again.  Only the general clauses are demanded of y = x.reshape(t) (rank, no axis larger than requested,
    valid, content), plus the stated round trip for the array y itself: its shape -> (drop the size-one axis, merge) -> back restores y."""
    targets = [shape[:p] + (1,) + shape[p:] for p in range(len(shape) + 1)]
    for i, ix in enumerate(x.indices):
        if ix.subinfo is not None:
            ss = sub_sizes(ix)
            if int(np.prod(ss)) != shape[i]:
                continue  # (sub-sectors were dropped from the fused axis: no shape in terms of the sub-axes has the array's size)
            base = shape[:i] + ss + shape[i + 1:]
            # (left and right of the re-split axis; a new axis *between* its sub-axes is refused with ValueError by the library - a loud refusal, not claimed)
            targets += [base[:p] + (1,) + base[p:] for p in (i, i + len(ss))]
    for t in targets:
        tag = f"expand{t}"
        try:
            y = x.reshape(t)
        except zt.Abort:
            raise
        except Exception as e:
            S.structural.append((f"{tag}:raised:{type(e).__name__}", str(e)))
            continue
        try:
            S.require(tag + ":rank", y.ndim == len(t), f"rank {y.ndim} for target {t}")
            probs = orc.audit(y)
            S.require(tag + ":valid", not probs, "; ".join(probs[:2]))
            S.require(tag + ":not-larger", all(d <= r for d, r in zip(total_sizes(y), t)), f"axes {total_sizes(y)} larger than requested {t}")
            content_preserved(S, tag, x, y)
            same_value(S, tag + ":fn", sr.reshape(x, t), y)
            w = y.reshape(shape)
            S.require(tag + ":drop:rank", w.ndim == len(shape), f"rank {w.ndim} for target {shape}")
            same_value(S, tag + ":drop+back", w.reshape(total_sizes(y)), y)
        except Violation as v:
            S.structural.append((v.name, v.detail))
        except zt.Abort:
            raise
        except Exception as e:
            S.structural.append((f"{tag}:back-raised:{type(e).__name__}", str(e)))


def _identity(S, x, shape, trig):
    try:
        w = x.reshape(shape)
        same_value(S, "idfused:identity" if trig else "identity", w, x)
    except Violation as v:
        S.structural.append((v.name, v.detail))
    except zt.Abort:
        raise
    except Exception as e:
        S.structural.append((("idfused:" if trig else "") + f"identity:raised:{type(e).__name__}", str(e)))


BODIES = {"body_reshape": body_reshape}


def _run(case):
    return run_case(body_reshape, case["spec"], complex_=case.get("complex", False), validate=case.get("validate", False),
                    want_sample=case.get("sample", False), seed=case.get("seed", 0), wall_limit=60)


def build_family(tier, seed):
    rng = random.Random(seed)
    thorough = tier == "thorough"
    groups = {}
    for sym, generic, fermionic in [("Z2", False, False), ("U1", False, False), ("Z2Z2", False, False), ("U1U1", False, False), ("Z4", True, False),
                                    ("Z2", False, True), ("U1", False, True), ("U1U1", False, True)]:
        two, one = fam.std_tables(sym, thorough, n_two=2, n_one=2)
        uni = fam.UNIVERSE[sym]
        singles = [((uni[0], 1),), ((uni[1], 1),)]  # size-one axes with zero and non-zero charge
        nm = f"{sym}{'-generic' if generic else ''}{'-fermionic' if fermionic else ''}"
        cases = []
        for nd in (1, 2, 3, 4):
            if nd <= 2:
                tb = two + singles
            elif nd == 3:
                tb = two[:2] + singles
            else:
                tb = two[:1] + singles
            arrs = list(fam.array_specs(sym, nd, tb, fermionic=fermionic, generic=generic, sparsity_threshold=3, phases=fermionic, rng=rng, labels=(8,)))
            arrs, _ = fam.thin(arrs, {1: None, 2: 300, 3: 500, 4: 300}[nd] if not thorough else {1: None, 2: None, 3: 5000, 4: 3000}[nd], seed + nd)
            for a in arrs:
                sizes = [sum(d for _, d in cm) for cm, _ in a["indices"]]
                tg = ops.reshape_targets(sizes, max_targets=16)
                cases.append(dict(a=a, targets=tuple(tg)))
        # already-fused axes
        base = list(fam.array_specs(sym, 3, two[:2] + singles[:1], fermionic=fermionic, generic=generic, sparsity_threshold=3, phases=False, rng=rng, labels=(8,)))
        base, _ = fam.thin(base, 150 if not thorough else 1500, seed + 9)
        for a in base:
            sizes = [sum(d for _, d in cm) for cm, _ in a["indices"]]
            for pre in (((0, 1),), ((1, 2),)):
                # shapes of the fused array are data dependent (sparsity): targets = unfused shape, flat, current
                cases.append(dict(a=dict(a, prefuse=(pre,)), targets=(tuple(sizes), (-1,))))
        cases, _ = fam.thin(cases, 2500 if not thorough else 25000, seed)
        groups[f"reshape/{nm}"] = ([dict(body="body_reshape", spec=c, validate=(i % 50 == 0), sample=(i % 800 == 0), seed=seed + i)
                                    for i, c in enumerate(cases)], False)
        if sym in ("Z2", "U1"):
            groups[f"reshape-complex/{nm}"] = ([dict(body="body_reshape", spec=c, complex=True, seed=seed + i)
                                                for i, c in enumerate(cases[::10])], False)
    return groups


def classify(v):
    spec = v.get("spec") or {}
    tags = {}
    name = str(v.get("name"))
    if name.startswith("reshape():raised:IndexError") or name.startswith("idfused:reshape():raised:IndexError"):
        tags["defect"] = "all-singleton-to-scalar"  # the target () is only generated when every axis has size one
    elif name.startswith("idfused:"):
        tags["defect"] = "identity-reshape-unfuses"
    return tags


def run(tier, seed, only=None):
    rep = Report(PID, tier, seed)
    rep.explanation = (
        "CrossHair: calc_reshape_args with symbolic axis sizes, a symbolic merge pattern and a symbolic drop pattern returns groupings that an independent "
        "shape simulator turns into exactly the requested shape (and back, with the sub-sizes of the forward trip). Engine B: every enumerated array "
        "(size-one axes with zero / non-zero charge, pre-fused axes, sparsity, fermionic pending signs) is reshaped by the real code on z3-term data to every "
        "target reachable by merging adjacent axes and dropping size-one axes; rank and axis sizes as requested, every input variable occurs exactly once up to "
        "sign (norm identity + each stored entry is +-an input or zero), the reverse trip restores every coordinate and index table, reshape to the current "
        "shape is the identity, and the three call routes agree.")
    rep.rule = "case = (array structure, list of targets); non-trivial = produced obligations"
    rep.functions = ["AbelianArray.reshape", "calc_reshape_args", "find_full_reshape", "fuse/unfuse/squeeze/expand_dims underneath", "symmray.reshape", "autoray.do('reshape')"]
    rep.bounds = {"rank": "<=4", "axis sizes": "1..3 (engine B); symbolic in [1,6] (engine A, <=4 axes; 5 thorough)", "targets": "<=16 per array"}
    rep.outside = ["targets that split an axis that was never fused (not reachable by merging/dropping)", "rank > 4 (B) / 5 (A)"]
    groups = build_family(tier, seed)
    run_groups(rep, groups, _run, only)
    if not only or "xh" in only:
        res, herr = xh.run_all(os.path.join(env.VERIF, "harness", "h_c07.py"), timeout=200 if tier == "quick" else 900,
                               only=(lambda n: "_5" not in n) if tier == "quick" else None)
        rep.add_xh(res)
        rep.harness_errors += herr
        rep.violations += xh.violations_from(res, PID)
    return rep.finish(classify)
