"""C15 — results do not depend on call history or caches (engine B + A).  The thread-schedule clause
is not applicable to this technique (DESIGN.md §5)."""
import itertools
import os
import random

import numpy as np

from vlib import env  # noqa
import symmray as sr
import symmray.abelian_core as ac

from vlib import families as fam
from vlib import oracle as orc
from vlib import sym as gs
from vlib import xh
from vlib import zt
from vlib.build import build
from vlib.driver import Report
from vlib.par import pmap, run_groups
from vlib.session import run_case, Violation

PID = "C15"


def set_cache(maxsize):
    ac._fuseinfo_cache_maxsize = maxsize
    ac._fuseinfos.clear()


def do_op(S, x, op, partner=None):
    name, args = op
    if name == "fuse":
        return x.fuse(*args[0]) if args[1] is None else x.fuse(*args[0], mode=args[1])
    if name == "fuse_unfuse":
        return x.fuse(*args[0]).unfuse_all()
    if name == "reshape":
        return x.reshape(args[0])
    if name == "tensordot_self":
        # contract with the conjugate over the listed axes in fused mode (fuses internally)
        return sr.tensordot(x, x.conj(), axes=(args[0], args[0]), mode="fused", preserve_array=True)
    if name == "readonly":
        # read-only observations (no caches involved, but they must not leave anything behind in the operand either): the values returned,
        # and the operand as seen afterwards
        out = []
        for f in args[0]:
            out.append(("scalar", getattr(x, f)()))
        out.append(("array", x.copy()))
        return out
    raise ValueError(name)


def same(S, name, r, ref):
    if isinstance(ref, list):
        S.require(name + ":kinds", isinstance(r, list) and len(r) == len(ref), "different kind of result")
        for k, ((kr, vr), (kf, vf)) in enumerate(zip(r, ref)):
            if kf == "scalar":
                S.equal(f"{name}:value{k}", vr, vf)
            else:
                same(S, f"{name}:operand-after", vr, vf)
        return
    S.require(name + ":rank", r.ndim == ref.ndim, f"rank {r.ndim} vs {ref.ndim}")
    S.require(name + ":charge", r.charge == ref.charge, f"charge {r.charge!r} vs {ref.charge!r}")
    S.require(name + ":indices", [orc.index_sig(i) for i in r.indices] == [orc.index_sig(i) for i in ref.indices],
              "index tables (incl. sub-index tables) differ from the cache-free result")
    S.require(name + ":sectors", set(r.blocks) == set(ref.blocks), "stored sectors differ")
    if orc.is_fermionic(ref):
        S.require(name + ":labels", orc.labels_of(r) == orc.labels_of(ref), "labels differ")
    c1, c2 = orc.coords(r), orc.coords(ref)
    for k in set(c1) | set(c2):
        S.equal(f"{name}@{k}", c1.get(k, 0), c2.get(k, 0))


def body_history(S, spec):
    """the value of op(x) after any earlier call on a near-identical array equals the cache-free value"""
    arrays = [build(S, dict(a, name=f"v{i}")) for i, a in enumerate(spec["variants"])]
    try:
        for op in spec["ops"]:
            set_cache(0)
            refs = []
            for x in arrays:
                try:
                    refs.append(("val", do_op(S, x, op)))
                except zt.Abort:
                    raise
                except Exception as e:
                    refs.append(("raise", type(e).__name__))
            for size in spec["cache_sizes"]:
                n = len(arrays)
                # every ordered pair with the base structure, plus all ordered pairs among the first four variants
                pairs = [(i, j) for i, j in itertools.permutations(range(n), 2) if i == 0 or j == 0 or (i < 4 and j < 4)]
                if n >= 3 and spec.get("tail_pair", True):
                    # the last two variants are the base with its first / its last stored sector missing: same number of stored sectors, one differs
                    pairs += [(n - 2, n - 1), (n - 1, n - 2)]
                for i, j in pairs:
                    set_cache(size)
                    seq = [i, j, i, j] if size in (1, 2) else [i, j]
                    for step, k in enumerate(seq):
                        kind, ref = refs[k]
                        tag = f"{op[0]}[cache={size}] history {seq[:step]} then v{k}"
                        try:
                            r = do_op(S, arrays[k], op)
                        except zt.Abort:
                            raise
                        except Exception as e:
                            S.require(tag + ":raises", kind == "raise", f"raised {type(e).__name__} but the cache-free call returns a value")
                            continue
                        S.require(tag + ":returns", kind == "val", "returned a value but the cache-free call raises")
                        same(S, tag, r, ref)
    finally:
        ac._fuseinfo_cache_maxsize = 8192
        ac._fuseinfos.clear()


BODIES = {"body_history": body_history}


def _run(case):
    return run_case(body_history, case["spec"], complex_=False, validate=False, want_sample=case.get("sample", False),
                    seed=case.get("seed", 0), wall_limit=240)


def variants_of(sym, base, rng):
    """single-attribute changes of a base structure (index specs, charge)"""
    ixs, q, fermionic, generic = base
    out = [ixs]
    nd = len(ixs)
    for i in range(nd):
        v = list(ixs)
        v[i] = (ixs[i][0], not ixs[i][1])
        out.append(tuple(v))  # one dualness
    i = rng.randrange(nd)
    cm = list(ixs[i][0])
    c, d = cm[-1]
    v = list(ixs)
    v[i] = (tuple(cm[:-1] + [(c, d + 1)]), ixs[i][1])
    out.append(tuple(v))  # one block size
    if sym in ("U1", "U1U1", "Z4"):
        uni = fam.UNIVERSE_THOROUGH.get(sym, fam.UNIVERSE[sym])
        i = rng.randrange(nd)
        cm = list(ixs[i][0])
        have = [c for c, _ in cm]
        new = [c for c in uni if c not in have]
        if new:
            v = list(ixs)
            v[i] = (tuple(sorted(cm[:-1] + [(new[-1], cm[-1][1])])), ixs[i][1])
            out.append(tuple(v))  # one charge label
    specs = []
    for k, v in enumerate(out):
        qs = fam.possible_charges(sym, v)
        qq = q if q in qs else qs[0]
        secs = fam.sectors_of(sym, v, qq)
        specs.append(dict(sym=sym, generic=generic, fermionic=fermionic, indices=v, charge=qq, present=tuple(secs), phases=(),
                          oddpos=(5 if fermionic and gs.parity(sym, qq) else None)))
    # one missing sector
    s0 = specs[0]
    if len(s0["present"]) > 1:
        specs.append(dict(s0, present=tuple(s0["present"][1:])))
        specs.append(dict(s0, present=tuple(s0["present"][:-1])))
    return specs


def build_family(tier, seed):
    rng = random.Random(seed)
    thorough = tier == "thorough"
    groups = {}
    for sym, generic, fermionic in [("Z2", False, False), ("U1", False, False), ("Z2Z2", False, False), ("Z4", True, False),
                                    ("Z2", False, True), ("U1", False, True)]:
        two, one = fam.std_tables(sym, thorough, n_two=3, n_one=1)
        nm = f"{sym}{'-generic' if generic else ''}{'-fermionic' if fermionic else ''}"
        cases = []
        bases = []
        for nd in (2, 3):
            structs = list(fam.index_structs(sym, nd, two[:2] + one[:1]))
            structs, _ = fam.thin(structs, (25 if nd == 2 else 30) if not thorough else 300, seed + nd)
            for ixs in structs:
                ixs = tuple(ixs)
                q = fam.possible_charges(sym, ixs)[0]
                bases.append((ixs, q, fermionic, generic))
        if sym == "U1":
            # charge labels -1 and -2 (their builtin hashes coincide: a key built with hash() instead of the library's hasher cannot tell
            # sector lists apart that differ by -1 <-> -2)
            neg = ((-2, 1), (-1, 2))
            for nd in (2, 3):
                for ixs in fam.index_structs(sym, nd, [neg]):
                    ixs = tuple(ixs)
                    qs = [q for q in fam.possible_charges(sym, ixs) if len(fam.sectors_of(sym, ixs, q)) >= 2]
                    if qs:
                        bases.append((ixs, qs[0], fermionic, generic))
        for base in bases:
            vs = variants_of(sym, base, rng)
            nd = len(base[0])
            mode = None if fermionic else "insert"
            oplist = [("fuse", (((0, 1),), mode)), ("fuse", (((1, 0),), mode)), ("fuse_unfuse", (((0, 1),),)), ("reshape", ((-1,),))]
            if nd == 3:
                oplist += [("fuse", (((0, 2), (1,)), mode)), ("fuse", (((2, 1, 0),), mode)), ("tensordot_self", ((0, 1),)), ("tensordot_self", ((2, 0),))]
            else:
                oplist += [("tensordot_self", ((0,),)), ("tensordot_self", ((1, 0),))]
                oplist += [("readonly", (("trace", "norm"),))]
            if not fermionic:
                oplist.append(("fuse", (((0, 1),), "concat")))
            # keep the number of ordered pairs moderate: the base with each variant, plus all pairs for a few bases
            for op in oplist:
                cases.append(dict(variants=tuple(vs), ops=(op,), cache_sizes=(8192, 1, 2)))
        # sub-index structure: same fused charge table, different sub-index tables
        uni = fam.UNIVERSE[sym]
        p = ((uni[0], 2), (uni[1], 1))
        qv = ((uni[0], 1), (uni[1], 2))
        r = ((uni[0], 1), (uni[1], 1))
        for d0, d1, d2 in itertools.product((False, True), repeat=3):
            va, vb = ((p, d0), (qv, d0), (r, d2)), ((qv, d0), (p, d0), (r, d2))
            specs = []
            for v in (va, vb):
                qq = fam.possible_charges(sym, v)[0]
                specs.append(dict(sym=sym, generic=generic, fermionic=fermionic, indices=v, charge=qq, present=tuple(fam.sectors_of(sym, v, qq)),
                                  phases=(), oddpos=(5 if fermionic and gs.parity(sym, qq) else None), prefuse=(((0, 1),),)))
            mode = None if fermionic else "insert"
            cases.append(dict(variants=tuple(specs), ops=(("fuse", (((0, 1),), mode)), ("fuse", (((1, 0),), mode)), ("reshape", ((-1,),)),
                                                          ("tensordot_self", ((1,),)), ("fuse_unfuse", (((1, 0),),))), cache_sizes=(8192, 1)))
            # ... and pre-fused arrays differing only in the direction of one *sub*-leg
            vc, vd = ((p, d0), (qv, d1), (r, d2)), ((p, d0), (qv, not d1), (r, d2))
            specs = []
            for v in (vc, vd):
                qq = fam.possible_charges(sym, v)[0]
                specs.append(dict(sym=sym, generic=generic, fermionic=fermionic, indices=v, charge=qq, present=tuple(fam.sectors_of(sym, v, qq)),
                                  phases=(), oddpos=(5 if fermionic and gs.parity(sym, qq) else None), prefuse=(((0, 1),),)))
            for op in (("fuse", (((0, 1),), mode)), ("fuse_unfuse", (((0, 1),),)), ("fuse_unfuse", (((1, 0),),)), ("reshape", ((-1,),)), ("tensordot_self", ((1,),))):
                cases.append(dict(variants=tuple(specs), ops=(op,), cache_sizes=(8192, 1)))
        groups[f"history/{nm}"] = ([dict(body="body_history", spec=c, sample=(i % 40 == 0), seed=seed + i) for i, c in enumerate(cases)], False)
    # same index tables, directions and stored sectors under *different symmetries* (generic classes): the cache key must
    # separate them, the fused charges differ ([+,-] pairs combine to -1/1 under U1, to 1 under Z2, to 3/1 under Z4)
    xs = []
    cm = ((0, 1), (1, 2))
    for duals in itertools.product((False, True), repeat=3):
        ixs = tuple((cm, d) for d in duals)
        for q in (0, 1):
            common = None
            per = {}
            for sym in ("U1", "Z2", "Z4"):
                qs = q if sym != "Z2" else q % 2
                secs = set(fam.sectors_of(sym, ixs, qs)) if qs in fam.possible_charges(sym, ixs) else set()
                per[sym] = qs
                common = secs if common is None else (common & secs)
            if not common:
                continue
            pres = tuple(sorted(common))
            specs = [dict(sym=sym, generic=True, fermionic=False, indices=ixs, charge=per[sym], present=pres, phases=(), oddpos=None) for sym in ("U1", "Z2", "Z4")]
            for op in (("fuse", (((0, 1),), "insert")), ("fuse", (((2, 0),), "insert")), ("fuse_unfuse", (((0, 1),),)), ("tensordot_self", ((0, 1),)), ("reshape", ((-1,),))):
                xs.append(dict(variants=tuple(specs), ops=(op,), cache_sizes=(8192, 1)))
    groups["history/cross-symmetry-generic"] = ([dict(body="body_history", spec=c, seed=seed + i) for i, c in enumerate(xs)], False)
    return groups


def run(tier, seed, only=None):
    rep = Report(PID, tier, seed)
    rep.explanation = (
        "The fuse cache is a map key->plan written only by calls with that key, so a wrong answer for a call needs an earlier call with the same key and a "
        "different plan. For every base structure a family of near-identical arrays is built (one dualness, one block size, one charge label, one missing "
        "sector, equal fused charge table with different sub-index tables); for every ordered pair, every cache size (default, 1, 2; 0 is the reference) and each "
        "operation that fuses (fuse with several groupings and strategies, fuse+unfuse, reshape, fused-mode contraction) the real code runs on z3-term data with "
        "the cache cleared, warmed by the sibling, and (sizes 1, 2) evicting; results must equal the cache-free result in deep index tables, sectors and every "
        "coordinate. CrossHair: the default-mode context manager restores the mode on normal and exceptional exit for every nesting; copy_with/conj/drop_charges "
        "reset the memoised hash key and never alias the charge table; hash keys of indices differing in one attribute differ. "
        "The thread-schedule clause is NOT covered (not applicable to this technique).")
    rep.rule = "case = (family of near-identical arrays, op list, cache sizes); non-trivial = produced obligations"
    rep.functions = ["cached_fuse_block_info", "calc_fuse_block_info", "BlockIndex.hashkey/copy_with/conj/drop_charges", "SubIndexInfo.hashkey", "hasher",
                     "default_tensordot_mode / set_default_tensordot_mode / get_default_tensordot_mode"]
    rep.bounds = {"rank": "2..3", "cache sizes": "0 (reference), 1, 2, 8192", "history length": "2 (4 with eviction)", "families": "<=8 variants per base"}
    rep.outside = ["thread interleavings (not applicable)", "SYMMRAY_FUSE_CACHE_MAXSECTORS other than the default", "histories longer than 4 calls (covered by the key->plan argument, not by enumeration)"]
    rep.assumptions = ["the module global _fuseinfo_cache_maxsize is set at run time instead of through SYMMRAY_FUSE_CACHE_MAXSIZE at import (same variable)"]
    groups = build_family(tier, seed)
    run_groups(rep, groups, _run, only)
    if not only or "xh" in only:
        res, herr = xh.run_all(os.path.join(env.VERIF, "harness", "h_c15.py"), timeout=200 if tier == "quick" else 600)
        rep.add_xh(res)
        rep.harness_errors += herr
        rep.violations += xh.violations_from(res, PID)
    return rep.finish()
