"""C17 — charges form an abelian group with parity; sector enumeration is exact (engine A)."""
import os
import sys

from vlib import env
from vlib import xh
from vlib.driver import Report

PID = "C17"
BODIES = {}


def _gen(name, **kw):
    sys.path.insert(0, os.path.join(env.VERIF, "harness"))
    import gen_c17_sectors as g
    d = env.scratch("gen")
    p = os.path.join(d, name)
    open(p, "w").write(g.generate(**kw))
    return p


def run(tier, seed, only=None):
    rep = Report(PID, tier, seed)
    rep.explanation = (
        "CrossHair symbolic execution (z3) of the real Symmetry classes obtained through get_symmetry(name) and of "
        "AbelianArray.gen_valid_sectors/is_valid_sector. U1/U1U1 charges and total charges are unbounded symbolic integers; "
        "finite-group charges, dual flags and 'charge present in this index' flags are symbolic booleans. A condition counts "
        "as discharged only when CrossHair reports 'Confirmed over all paths'; every condition has a reachability twin.")
    rep.rule = "one CrossHair condition per contract function; distinct by (symmetry, law set) or (symmetry, ndim, presence mask)"
    rep.functions = ["symmray.symmetries.{Z2,Z4,U1,Z2Z2,U1U1}.{valid,combine,sign,parity}", "get_symmetry",
                     "AbelianArray.gen_valid_sectors", "AbelianArray.is_valid_sector"]
    thorough = tier == "thorough"
    rep.bounds = {"group laws": "all valid charges (finite groups), all integers (U1, U1U1)",
                  "sector enumeration": ("ndim 0..2: every non-empty subset of a 3-charge universe per index (4 for Z4); ndim=3: first index "
                                         "over the 3-charge universe, others over every non-empty subset of 2 charges" if not thorough else
                                         "ndim<=3: every non-empty subset of a 3-charge universe per index (Z4: first 3 of 4 for concrete indices); ndim=4 over 2-charge universes"),
                  "duals/total charge": "every dualness pattern; every total charge (unbounded for U1-type)"}
    rep.outside = ["more than 4 indices; charge universes other than the fixed small ones; user-defined Symmetry subclasses"]
    t = 120 if not thorough else 300
    res, herr = xh.run_all(os.path.join(env.VERIF, "harness", "h_c17_groups.py"), timeout=t)
    files = [_gen("h_c17_sec_a.py", ndims=[0, 1, 2], nsym_idx=1)]
    if not thorough:
        files.append(_gen("h_c17_sec_b.py", ndims=[3], nsym_idx=1, conc_universe=2))
    else:
        files.append(_gen("h_c17_sec_b.py", ndims=[3], nsym_idx=0, conc_universe=3))
        files.append(_gen("h_c17_sec_c.py", ndims=[4], nsym_idx=1, conc_universe=2))
    for f in files:
        r2, h2 = xh.run_all(f, timeout=t)
        res += r2
        herr += h2
    rep.add_xh(res)
    rep.harness_errors += herr
    rep.violations += xh.violations_from(res, PID)
    return rep.finish()
