"""C06 — contraction commutes with fusing, and all contraction strategies agree (engine B)."""
import itertools
import random

import numpy as np

from vlib import env  # noqa
import symmray as sr

from vlib import families as fam
from vlib import oracle as orc
from vlib import sym as gs
from vlib import zt
from vlib.build import build
from vlib.driver import Report
from vlib.par import pmap, run_groups
from vlib.session import run_case, Violation

PID = "C06"


def same_array(S, name, r, ref, sig=orc.index_sig):
    S.require(name + ":kind", isinstance(r, sr.AbelianArray) == isinstance(ref, sr.AbelianArray), f"{type(r).__name__} vs {type(ref).__name__}")
    if not isinstance(ref, sr.AbelianArray):
        S.equal(name, r, ref)
        return
    S.require(name + ":rank", r.ndim == ref.ndim, f"rank {r.ndim} vs {ref.ndim}")
    S.require(name + ":charge", r.charge == ref.charge, f"charge {r.charge!r} vs {ref.charge!r}")
    S.require(name + ":indices", [sig(i) for i in r.indices] == [sig(i) for i in ref.indices],
              "index tables differ (directions, charge tables or sub-index structure)")
    if orc.is_fermionic(ref):
        S.require(name + ":labels", orc.labels_of(r) == orc.labels_of(ref), f"labels {orc.labels_of(r)} vs {orc.labels_of(ref)}")
    c1, c2 = orc.coords(r), orc.coords(ref)
    for k in set(c1) | set(c2):
        S.equal(f"{name}@{k}", c1.get(k, 0), c2.get(k, 0))


def same_values_aligned(S, name, r, ref):
    """same tensor, allowing one to have dropped charges that the other keeps (values by charge address)"""
    S.require(name + ":rank", r.ndim == ref.ndim, f"rank {r.ndim} vs {ref.ndim}")
    S.require(name + ":charge", r.charge == ref.charge, f"charge {r.charge!r} vs {ref.charge!r}")
    S.require(name + ":duals", [i.dual for i in r.indices] == [i.dual for i in ref.indices], "directions differ")
    if orc.is_fermionic(ref):
        S.require(name + ":labels", orc.labels_of(r) == orc.labels_of(ref), f"labels {orc.labels_of(r)} vs {orc.labels_of(ref)}")
    c1, c2 = orc.coords(r), orc.coords(ref)
    for k in set(c1) | set(c2):
        S.equal(f"{name}@{k}", c1.get(k, 0), c2.get(k, 0))


def _same_after_unfuse(S, name, r1, r2, k):
    """two results whose leg k is fused: equivalent when both are fused there, the fused tables agree on direction, and
    unfusing gives the same tensor (a contraction may drop unused charges from a leg, so the tables of 'fuse before' can
    list sub-sectors that 'fuse after' never saw: only values are compared, by charge address)"""
    S.require(name + ":rank", r1.ndim == r2.ndim, f"rank {r1.ndim} vs {r2.ndim}")
    S.require(name + ":fused", r1.indices[k].subinfo is not None and r2.indices[k].subinfo is not None, "leg is not fused in both")
    S.require(name + ":direction", r1.indices[k].dual == r2.indices[k].dual, "fused leg direction differs")
    c1, c2 = dict(r1.indices[k].chargemap), dict(r2.indices[k].chargemap)
    S.require(name + ":fused-charges", all(c1[c] >= c2[c] for c in c2 if c in c1) and set(c2) <= set(c1) or set(c1) <= set(c2), "fused charge tables incompatible")
    same_values_aligned(S, name, r1.unfuse(k), r2.unfuse(k))


def td(a, b, axes, mode):
    return sr.tensordot(a, b, axes=axes, mode=mode, preserve_array=True)


def body_modes(S, spec):
    """(i) blockwise = fused = auto, incl. (iv) pre-fused free legs stay fused with the same table"""
    a, b = build(S, spec["a"]), build(S, spec["b"])
    axa, axb = spec["axes"]
    ref = td(a, b, (axa, axb), "blockwise")
    probs = orc.audit(ref)
    S.require("blockwise:valid", not probs, "; ".join(probs[:2]))
    for mode in ("fused", "auto"):
        r = td(a, b, (axa, axb), mode)
        probs = orc.audit(r)
        S.require(f"{mode}:valid", not probs, "; ".join(probs[:2]))
        same_array(S, f"{mode}=blockwise", r, ref)
    # a free leg that was fused beforehand stays fused (same sub-index table up to charges dropped by alignment)
    free = [(a, i) for i in range(a.ndim) if i not in axa] + [(b, i) for i in range(b.ndim) if i not in axb]
    for k, (op, i) in enumerate(free):
        si = op.indices[i].subinfo
        if si is not None:
            for mode in ("blockwise", "fused", "auto"):
                r = ref if mode == "blockwise" else td(a, b, (axa, axb), mode)
                rs = r.indices[k].subinfo
                S.require(f"{mode}:prefused-stays-fused", rs is not None, f"result leg {k} lost its sub-index table")
                S.require(f"{mode}:prefused-subindices", [orc.index_sig(x) for x in rs.indices] == [orc.index_sig(x) for x in si.indices],
                          f"result leg {k}: sub-indices differ from the operand's")
    if S.mode == "sym":
        c = orc.coords(ref)
        if c:
            k0 = next(iter(c))
            S.canary("shifted", c[k0], c[k0] + 1)


def body_fuse_contracted(S, spec):
    """(ii) contracting k pairs == align, fuse the k legs on each side, contract the single fused pair"""
    a, b = build(S, spec["a"]), build(S, spec["b"])
    axa, axb = spec["axes"]
    ferm = orc.is_fermionic(a)
    for mode in ("blockwise", "fused"):
        ref = td(a, b, (axa, axb), mode)
        a2, b2 = a.align_axes(b, (axa, axb))
        for fmode in ((None,) if ferm else ("insert", "concat")):
            if ferm:
                af, bf = a2.fuse(axa), b2.fuse(axb)
            else:
                af, bf = a2.fuse(axa, mode=fmode), b2.fuse(axb, mode=fmode)
            pa, pb = min(axa), min(axb)
            S.require(f"fused-legs-match[{fmode}]", af.indices[pa].matches(bf.indices[pb]) if hasattr(af.indices[pa], "matches") else True,
                      "fused legs of the two operands do not match")
            ca, cb = dict(af.indices[pa].chargemap), dict(bf.indices[pb].chargemap)
            S.require(f"fused-legs-tables[{fmode}]", ca == cb and af.indices[pa].dual != bf.indices[pb].dual,
                      f"fused contracted legs are not a conjugate pair: {ca}/{af.indices[pa].dual} vs {cb}/{bf.indices[pb].dual}")
            r = td(af, bf, ((pa,), (pb,)), mode)
            same_values_aligned(S, f"fuse-then-contract[{mode},{fmode}]", r, ref)


def body_fuse_free(S, spec):
    """(iii) fusing free legs before == after contraction"""
    a, b = build(S, spec["a"]), build(S, spec["b"])
    axa, axb = spec["axes"]
    ferm = orc.is_fermionic(a)
    fa = [i for i in range(a.ndim) if i not in axa]
    fb = [i for i in range(b.ndim) if i not in axb]
    for mode in ("blockwise", "fused"):
        ref = td(a, b, (axa, axb), mode)
        if len(fa) >= 2:
            g = tuple(fa[:2])
            af = a.fuse(g)
            if not ferm:
                # both strategies, also with an extra single-axis group listed after the real group
                af_c = a.fuse(g, mode="concat")
                same_array(S, f"fuse-free:concat=insert[{mode}]", af_c, a.fuse(g, mode="insert"))
                rest_axes = [i for i in range(a.ndim) if i not in g]
                if rest_axes:
                    x1 = a.fuse(g, (rest_axes[-1],), mode="insert")
                    x2 = a.fuse(g, (rest_axes[-1],), mode="concat")
                    same_array(S, f"fuse-free+singlet:concat=insert[{mode}]", x2, x1)
            # positions after fusing: group sits at min(g); contracted axes shift
            newpos = {}
            position = min(g)
            before = [i for i in range(position) if i not in g]
            after = [i for i in range(position, a.ndim) if i not in g]
            for n, i in enumerate(before):
                newpos[i] = n
            for n, i in enumerate(after):
                newpos[i] = len(before) + 1 + n
            axa2 = tuple(newpos[i] for i in axa)
            r1 = td(af, b, (axa2, axb), mode)
            # free legs of af in order: before-free, fused, after-free  ->  same as fusing legs (0,1)... of ref
            free_af = [i for i in range(af.ndim) if i not in axa2]
            kpos = free_af.index(position)
            # in ref the two legs are at positions of fa[0], fa[1] among a's free legs
            i0, i1 = fa.index(g[0]), fa.index(g[1])
            r2 = ref.fuse((i0, i1))
            # r2 puts the fused leg at min(i0,i1); r1 has it at kpos: equal when the free legs between are none
            if kpos == min(i0, i1) and abs(i0 - i1) == 1:
                _same_after_unfuse(S, f"fuse-free-left[{mode}]", r1, r2, kpos)
        if len(fb) >= 2:
            g = tuple(fb[:2])
            bf = b.fuse(g)
            position = min(g)
            before = [i for i in range(position) if i not in g]
            after = [i for i in range(position, b.ndim) if i not in g]
            newpos = {}
            for n, i in enumerate(before):
                newpos[i] = n
            for n, i in enumerate(after):
                newpos[i] = len(before) + 1 + n
            axb2 = tuple(newpos[i] for i in axb)
            r1 = td(a, bf, (axa, axb2), mode)
            free_bf = [i for i in range(bf.ndim) if i not in axb2]
            kpos = len(fa) + free_bf.index(position)
            i0, i1 = len(fa) + fb.index(g[0]), len(fa) + fb.index(g[1])
            r2 = ref.fuse((i0, i1))
            if kpos == min(i0, i1) and abs(i0 - i1) == 1:
                _same_after_unfuse(S, f"fuse-free-right[{mode}]", r1, r2, kpos)


BODIES = {f.__name__: f for f in (body_modes, body_fuse_contracted, body_fuse_free)}


def _run(case):
    return run_case(BODIES[case["body"]], case["spec"], complex_=case.get("complex", False), validate=case.get("validate", False),
                    want_sample=case.get("sample", False), seed=case.get("seed", 0), wall_limit=60)


def build_family(tier, seed):
    rng = random.Random(seed)
    thorough = tier == "thorough"
    groups = {}
    for sym, generic, fermionic in [("Z2", False, False), ("U1", False, False), ("U1U1", False, False), ("Z4", True, False),
                                    ("Z2", False, True), ("U1", False, True), ("Z2Z2", False, True), ("U1U1", False, True)]:
        two, one = fam.std_tables(sym, thorough, n_two=3, n_one=1)
        nm = f"{sym}{'-generic' if generic else ''}{'-fermionic' if fermionic else ''}"
        modes_c, fc, ff = [], [], []
        for na, nb in [(1, 1), (2, 1), (1, 2), (2, 2), (3, 2), (2, 3), (3, 3)]:
            big = na + nb >= 5
            structs = fam.pair_structs(sym, na, nb, (two[:2] + one[:1]) if not big else two[:2], two[:1] + one[:1])
            structs, _ = fam.thin(structs, (200 if not big else 250) if not thorough else 2500, seed + na * 7 + nb)
            for k, st in enumerate(structs):
                for A, B, axes, ex2 in fam.expand_pair(sym, st, rng, generic=generic, fermionic=fermionic, max_pairs=4 if not thorough else 10,
                                                       phases=fermionic, max_phase=2, labels=[(1, 2), (2, 1), ("u", "v")][k % 3]):
                    c = dict(a=A, b=B, axes=axes)
                    modes_c.append(c)
                    if len(axes[0]) >= 2:
                        fc.append(c)
                    if (na - len(axes[0]) >= 2 or nb - len(axes[0]) >= 2):
                        ff.append(c)
        r4 = []
        # rank-4 x rank-3 with two contracted pairs (two free legs in front of the contracted ones): every single-missing sparsity pattern
        if sym in ("Z2", "U1") and not generic:
            structs = fam.pair_structs(sym, 4, 3, two[:1], two[:1], ks=(2,))
            structs, _ = fam.thin(structs, 60 if not thorough else 600, seed + 431)
            for st in structs:
                for A, B, axes, ex2 in fam.expand_pair(sym, st, rng, generic=generic, fermionic=fermionic, max_pairs=5, sparsity_threshold=2,
                                                       phases=False, labels=(1, 2)):
                    r4.append(dict(a=A, b=B, axes=axes))
        # pre-fused free legs: 3-leg a with two free legs fused beforehand, contracted over the remaining leg (and 4-leg with 2)
        pf = []
        structs = fam.pair_structs(sym, 3, 2, two[:2], two[:1] + one[:1], ks=(1,))
        structs, _ = fam.thin(structs, 200 if not thorough else 2000, seed + 77)
        for st in structs:
            a_ixs, b_ixs, axa, axb = st
            free = [i for i in range(3) if i not in axa]
            for A, B, axes, ex2 in fam.expand_pair(sym, st, rng, generic=generic, fermionic=fermionic, max_pairs=4, phases=False, labels=(1, 2)):
                pre = (tuple(free),)
                # after fusing the two free legs the array has 2 legs: fused at min(free), contracted at the other
                position = min(free)
                newax = 0 if axa[0] < position else 1
                pf.append(dict(a=dict(A, prefuse=(pre,)), b=B, axes=((newax,), axb)))
                # and the pre-fused leg on the right operand (b has one free leg: fuse it with nothing is a no-op, so use a as right)
        structs = fam.pair_structs(sym, 2, 3, two[:2], two[:2], ks=(1,))
        structs, _ = fam.thin(structs, 200 if not thorough else 2000, seed + 78)
        for st in structs:
            a_ixs, b_ixs, axa, axb = st
            free = [i for i in range(3) if i not in axb]
            for A, B, axes, ex2 in fam.expand_pair(sym, st, rng, generic=generic, fermionic=fermionic, max_pairs=4, phases=False, labels=(1, 2)):
                position = min(free)
                newax = 0 if axb[0] < position else 1
                pf.append(dict(a=A, b=dict(B, prefuse=((tuple(free),),)), axes=(axa, (newax,))))
        modes_c, _ = fam.thin(modes_c, 5000 if not thorough else 50000, seed)
        fc, _ = fam.thin(fc, 2500 if not thorough else 25000, seed + 1)
        ff, _ = fam.thin(ff, 2000 if not thorough else 20000, seed + 2)
        pf, _ = fam.thin(pf, 1500 if not thorough else 15000, seed + 3)
        if r4:
            r4, _ = fam.thin(r4, 1200 if not thorough else 12000, seed + 5)
            groups[f"modes-rank4/{nm}"] = ([dict(body="body_modes", spec=c, seed=seed + i) for i, c in enumerate(r4)], False)
            groups[f"fuse-contracted-rank4/{nm}"] = ([dict(body="body_fuse_contracted", spec=c, seed=seed + i) for i, c in enumerate(r4[::2])], False)
        groups[f"modes/{nm}"] = ([dict(body="body_modes", spec=c, validate=(i % 60 == 0), sample=(i % 2000 == 0), seed=seed + i) for i, c in enumerate(modes_c)], False)
        groups[f"modes-prefused/{nm}"] = ([dict(body="body_modes", spec=c, sample=(i % 700 == 0), seed=seed + i) for i, c in enumerate(pf)], False)
        groups[f"fuse-contracted/{nm}"] = ([dict(body="body_fuse_contracted", spec=c, validate=(i % 60 == 0), sample=(i % 1000 == 0), seed=seed + i) for i, c in enumerate(fc)], False)
        groups[f"fuse-free/{nm}"] = ([dict(body="body_fuse_free", spec=c, sample=(i % 1000 == 0), seed=seed + i) for i, c in enumerate(ff)], False)
    return groups


def run(tier, seed, only=None):
    rep = Report(PID, tier, seed)
    rep.explanation = (
        "Bounded symbolic checking on z3-term data: for every enumerated contractible pair (abelian and fermionic, even/odd with labels, pending signs, "
        "operands whose present sectors differ) (i) blockwise, fused and auto results are identical in rank, deep index tables, labels and every coordinate; "
        "(iv) a free leg fused beforehand stays fused with the same sub-indices in every mode; (ii) aligning the operands, fusing the k contracted legs on each "
        "side (insert and concat) and contracting the single fused pair equals contracting the k pairs; (iii) fusing two adjacent free legs before the "
        "contraction equals fusing the corresponding result legs afterwards.")
    rep.rule = "case = (operand pair structure incl. sparsity/pending signs/labels/pre-fused legs, axes); non-trivial = produced obligations"
    rep.functions = ["tensordot_abelian/_tensordot_blockwise/_tensordot_via_fused", "drop_misaligned_sectors", "align_axes", "fuse (insert, concat) / unfuse",
                     "tensordot_fermionic", "FermionicArray.fuse"]
    rep.bounds = {"rank": "<=3 per operand", "charges_per_index": "<=2", "block_sizes": "1..2", "pre-fused legs": "two free legs of a 3-leg operand fused beforehand (left or right operand)"}
    rep.outside = ["fusing non-adjacent free legs before contraction (leg order then differs by a transpose)", "ranks > 3"]
    groups = build_family(tier, seed)
    run_groups(rep, groups, _run, only)
    return rep.finish()
