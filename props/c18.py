"""C18 — local fermionic operator arrays reproduce the second-quantised operator (engine B + Fock oracle)."""
import itertools
import random

import numpy as np

from vlib import env  # noqa
import symmray as sr
import autoray as ar
import symmray.fermionic_local_operators as flo
from symmray.abelian_core import BlockIndex

from vlib import families as fam
from vlib import oracle as orc
from vlib import sym as gs
from vlib import zt
from vlib.fock import Fock
from vlib.driver import Report
from vlib.par import pmap, run_groups
from vlib.session import run_case, Violation

PID = "C18"

# backend whose zeros are object arrays so that symbolic coefficients can be accumulated
class RealBuffer(np.ndarray):
    """object array standing for a *real* machine buffer: numpy silently discards the imaginary part of a complex number written into a
    float64 array (ComplexWarning only); here such a write is a cast trap (TypeError), replayed on machine numbers before it is reported"""

    def __setitem__(self, idx, val):
        for e in np.asarray(val, dtype=object).reshape(-1):
            im = None
            if isinstance(e, zt.Z) and e.im is not None:
                im = e.im
                import z3
                if zt._is_zero(z3.simplify(im)):
                    im = None
            elif isinstance(e, (complex, np.complexfloating)) and e.imag != 0:
                im = e.imag
            if im is not None:
                if zt.have_ctl():
                    zt.ctl().cast_traps.append(("real-buffer", str(im)[:80]))
                raise TypeError("cast trap: symbolic entry forced to a machine float (complex value written into a real buffer)")
        super().__setitem__(idx, val)


RealBuffer.__module__ = "numpy"


def _zobj_zeros(shape, dtype=None, **kw):
    # float / complex buffers become object arrays (they can hold terms); any other requested dtype (e.g. an integer
    # buffer) is honoured, so that a term written into it is seen as the cast it would be for numpy users
    if dtype is not None and str(np.dtype(dtype)) in ("float64", "float32"):
        return np.zeros(shape, dtype=object).view(RealBuffer)
    if dtype is None or str(np.dtype(dtype)) in ("complex128", "complex64", "object"):
        return np.zeros(shape, dtype=object)
    return np.zeros(shape, dtype=dtype)


ar.register_function("zobj", "zeros", _zobj_zeros)


def like_for(S):
    return "zobj" if S.mode == "sym" else "numpy"


def ops_of(state):
    """basis state spec: tuple of mode labels (creation operators, in the written order)"""
    return [(m, True) for m in state]


def bra_persite(states):
    """per-site dagger, sites not reversed (the library's documented bra convention)"""
    out = []
    for st in states:
        out += [(m, False) for m in reversed(st)]
    return out


def ket(states):
    out = []
    for st in states:
        out += [(m, True) for m in st]
    return out


def coef(S, name):
    """coefficient: a term (sym); in numeric runs of the complex-coefficient families a numpy *complex64* scalar - neither a python complex nor a
    subclass of it, as entries of a single-precision phase array are (values are multiples of 1/4: exact in single precision)"""
    c = S.scalar(name)
    if S.mode == "num" and S.complex_:
        c = complex(c)
        c = np.complex64(complex(round(c.real * 4) / 4 or 0.25, round(c.imag * 4) / 4 or 0.25))
        S.tol = 1e-5
    return c


def lib_terms(S, terms):
    return [(c, [(m, "+" if cr else "-") for m, cr in ops]) for c, ops in terms]


def lib_bases(bases):
    return [[tuple((m, "+") for m in st) for st in basis] for basis in bases]


def body_elements(S, spec):
    """(a) build_local_fermionic_elements == vacuum expectation values"""
    bases = spec["bases"]
    modes = sorted({m for b in bases for st in b for m in st} | {m for _, ops in spec["terms"] for m, _ in ops})
    F = Fock(modes)
    terms = [(coef(S, f"c{k}"), ops) for k, (_, ops) in enumerate(spec["terms"])]
    got = flo.build_local_fermionic_elements(lib_terms(S, terms), lib_bases(bases))
    n = len(bases)
    for idx in itertools.product(*[range(len(b)) for b in bases] * 2):
        left = bra_persite([bases[s][idx[s]] for s in range(n)])
        right = ket([bases[s][idx[n + s]] for s in range(n)])
        want = 0
        for c, ops in terms:
            v = F.vev(left + list(ops) + right)
            if v:
                want = want + (c if v == 1 else -c)
        S.equal(f"element{idx}", got.get(idx, 0), want)
    extra = [k for k in got if len(k) != 2 * n or any(not (0 <= i < len(bases[s % n])) for s, i in enumerate(k))]
    S.require("indices-in-range", not extra, f"elements at impossible tensor indices {extra[:2]}")
    if S.mode == "sym" and terms:
        S.canary("shifted", terms[0][0], terms[0][0] + 1)


def leg_address(index_map):
    """basis position -> (charge, offset) as from_dense lays it out (positions of a charge in order)"""
    seen = {}
    out = []
    for c in index_map:
        out.append((c, seen.get(c, 0)))
        seen[c] = seen.get(c, 0) + 1
    return out


MODELS = {
    "spinless": dict(modes=("a", "b"), bases=((("",), ("a",)), (("",), ("b",)))),
}


def hubbard_spinless_terms(t, V, mua, mub, za, zb):
    a, b = "a", "b"
    return [(-t, [(a, True), (b, False)]), (-t, [(b, True), (a, False)]),
            (V, [(a, True), (a, False), (b, True), (b, False)]),
            (-mua / za, [(a, True), (a, False)]), (-mub / zb, [(b, True), (b, False)])]


def hubbard_terms(t, Ua, Ub, mua, mub, za, zb):
    au, ad, bu, bd = "au", "ad", "bu", "bd"
    n = lambda m: [(m, True), (m, False)]
    return [(-t, [(au, True), (bu, False)]), (-t, [(bu, True), (au, False)]), (-t, [(ad, True), (bd, False)]), (-t, [(bd, True), (ad, False)]),
            (Ua / za, n(au) + n(ad)), (Ub / zb, n(bu) + n(bd)),
            (-mua / za, n(au)), (-mua / za, n(ad)), (-mub / zb, n(bu)), (-mub / zb, n(bd))]


SPINLESS_BASES = [[(), ("a",)], [(), ("b",)]]
SPINFUL_BASES = [[(), ("ad",), ("au",), ("au", "ad")], [(), ("bd",), ("bu",), ("bu", "bd")]]


def expected_tensor(F, terms, bases):
    n = len(bases)
    out = {}
    for idx in itertools.product(*[range(len(b)) for b in bases] * 2):
        left = bra_persite([bases[s][idx[s]] for s in range(n)])
        right = ket([bases[s][idx[n + s]] for s in range(n)])
        want = 0
        for c, ops in terms:
            v = F.vev(left + list(ops) + right)
            if v:
                want = want + (c if v == 1 else -c)
        out[idx] = want
    return out


def compare_array(S, name, G, exp, index_maps):
    n = len(index_maps)
    addr = [leg_address(im) for im in index_maps]
    S.require(name + ":type", isinstance(G, sr.FermionicArray), f"type {type(G).__name__}")
    probs = orc.audit(G)
    S.require(name + ":valid", not probs, "; ".join(probs[:2]))
    S.require(name + ":duals", [ix.dual for ix in G.indices] == [False] * n + [True] * n, "directions are not (ket..., bra...)")
    got = orc.coords(G)
    used = set()
    for idx, want in exp.items():
        a = tuple(addr[s % n][i] for s, i in enumerate(idx))
        used.add(a)
        S.equal(f"{name}{idx}", got.get(a, 0), want)
    extra = [k for k in got if k not in used]
    S.require(name + ":extra", not extra, f"stored entries outside the basis: {extra[:2]}")


def body_model(S, spec):
    """(b) the model builders == the documented Hamiltonian's Fock matrix elements"""
    sym, model = spec["sym"], spec["model"]
    if S.mode == "sym":
        import z3
        for nm in ("t", "V", "Ua", "Ub", "mua", "mub"):
            zt.ctl().assume(z3.Real(nm) != 0, "input: model coefficients non-zero", light=True)
    za, zb = spec["coordinations"]
    like = like_for(S)
    if model == "spinless":
        t, V, mua, mub = coef(S, "t"), coef(S, "V"), coef(S, "mua"), coef(S, "mub")
        mu = (mua, mub) if spec["site_dependent"] else mua
        if not spec["site_dependent"]:
            mub = mua
        G = sr.fermi_hubbard_spinless_local_array(sym, t=t, V=V, mu=mu, coordinations=(za, zb), like=like)
        terms, bases = hubbard_spinless_terms(t, V, mua, mub, za, zb), SPINLESS_BASES
        im = flo.get_spinless_charge_indexmap(sym)
        want_im = {"Z2": [0, 1], "U1": [0, 1]}[sym]
    elif model == "spinful":
        t, Ua, Ub, mua, mub = coef(S, "t"), coef(S, "Ua"), coef(S, "Ub"), coef(S, "mua"), coef(S, "mub")
        if spec["site_dependent"]:
            U, mu = (Ua, Ub), (mua, mub)
        else:
            U, mu, Ub, mub = Ua, mua, Ua, mua
        G = sr.fermi_hubbard_local_array(sym, t=t, U=U, mu=mu, coordinations=(za, zb), like=like)
        terms, bases = hubbard_terms(t, Ua, Ub, mua, mub, za, zb), SPINFUL_BASES
        im = flo.get_spinful_charge_indexmap(sym)
        want_im = {"Z2": [0, 1, 1, 0], "U1": [0, 1, 1, 2], "Z2Z2": [(0, 0), (0, 1), (1, 0), (1, 1)], "U1U1": [(0, 0), (0, 1), (1, 0), (1, 1)]}[sym]
    else:
        one = {"number_spinless": (sr.fermi_number_operator_spinless_local_array, [(1, [("a", True), ("a", False)])], [SPINLESS_BASES[0]], "spinless"),
               "number_spinful": (sr.fermi_number_operator_spinful_local_array, [(1, [("au", True), ("au", False)]), (1, [("ad", True), ("ad", False)])], [SPINFUL_BASES[0]], "spinful"),
               "spin": (sr.fermi_spin_operator_local_array, [(0.5, [("au", True), ("au", False)]), (-0.5, [("ad", True), ("ad", False)])], [SPINFUL_BASES[0]], "spinful")}[model]
        G = one[0](sym, like=like)
        terms, bases = one[1], one[2]
        im = flo.get_spinless_charge_indexmap(sym) if one[3] == "spinless" else flo.get_spinful_charge_indexmap(sym)
        want_im = {"spinless": {"Z2": [0, 1], "U1": [0, 1]}, "spinful": {"Z2": [0, 1, 1, 0], "U1": [0, 1, 1, 2], "Z2Z2": [(0, 0), (0, 1), (1, 0), (1, 1)], "U1U1": [(0, 0), (0, 1), (1, 0), (1, 1)]}}[one[3]][sym]
    # (the builders skip terms whose coefficient compares equal to 0.0: one branch per coefficient; the all-non-zero
    #  branch is the one explored here, the skipping itself is covered in the 'elements' group)
    # charge maps: charge of a basis state = particle number (U1), parity (Z2), (n_up, n_down) resp. their parities
    S.require("charge-map", list(im) == want_im, f"charge map {im} != {want_im}")
    modes = sorted({m for b in bases for st in b for m in st})
    exp = expected_tensor(Fock(modes), terms, bases)
    compare_array(S, f"{model}/{sym}", G, exp, [im] * len(bases))
    S.require("charge", G.charge == gs.identity(sym), f"charge {G.charge!r}")


def body_array(S, spec):
    """build_local_fermionic_array for arbitrary (heterogeneous) bases and charge maps: every stored element sits at the
    address its own site's charge map assigns, and equals the vacuum expectation value"""
    sym, bases, ims = spec["sym"], spec["bases"], spec["index_maps"]
    modes = sorted({m for b in bases for st in b for m in st})
    terms = [(coef(S, f"c{k}"), ops) for k, (_, ops) in enumerate(spec["terms"])]
    if spec.get("first_literal") is not None:
        # a literal (int / float) first coefficient, as in the library's own number-operator terms
        terms[0] = (spec["first_literal"], terms[0][1])
    if S.mode == "sym":
        import z3
        for k in range(len(terms)):
            zt.ctl().assume(z3.Real(f"c{k}") != 0, "input: coefficients non-zero", light=True)
    import warnings
    with warnings.catch_warnings():
        warnings.simplefilter("ignore")
        G = sr.build_local_fermionic_array(lib_terms(S, terms), lib_bases(bases), sym, index_maps=[list(im) for im in ims], like=like_for(S))
    exp = expected_tensor(Fock(modes), terms, bases)
    # elements in sectors that do not conserve the charge are dropped by the conversion: expect them only where conserved
    n = len(bases)
    keep = {}
    for idx, v in exp.items():
        sec = [ims[s % n][i] for s, i in enumerate(idx)]
        duals = [False] * n + [True] * n
        keep[idx] = v if gs.sector_charge(sym, sec, duals) == gs.identity(sym) else 0
    compare_array(S, "array", G, keep, list(ims))


def state_tensor(S, sym, index_maps, charge, label):
    """symbolic state tensor on the ket legs, of the given total charge"""
    cls = {"Z2": sr.Z2FermionicArray, "U1": sr.U1FermionicArray, "Z2Z2": sr.Z2Z2FermionicArray, "U1U1": sr.U1U1FermionicArray}[sym]
    indices = []
    for im in index_maps:
        cm = {}
        for c in im:
            cm[c] = cm.get(c, 0) + 1
        indices.append(BlockIndex(cm, dual=False))
    blocks = {}
    for sec in itertools.product(*[sorted(ix.chargemap) for ix in indices]):
        if gs.combine(sym, list(sec)) == charge:
            blocks[sec] = S.fill("psi<" + ";".join(map(str, sec)).replace(" ", "") + ">", tuple(ix.chargemap[c] for ix, c in zip(indices, sec)))
    if not blocks:
        return None
    return cls(indices=indices, charge=charge, blocks=blocks, oddpos=label if gs.parity(sym, charge) else None)


def dsign(states):
    """the fixed sign convention of the bases: (-1)^(sum over pairs of sites s<s' of N_s N_s'), N_s = number of creation
    operators in the site's basis state.  It comes from the bra convention 'per-site dagger, sites not reversed' and from the
    nested pairing of the contraction; for spinless sites it equals (-1)^(N(N-1)/2).  It never depends on the operator."""
    ns = [len(st) for st in states]
    tot = sum(ns[i] * ns[j] for i in range(len(ns)) for j in range(i + 1, len(ns)))
    return -1 if tot % 2 else 1


def body_action(S, spec):
    """(c) tensordot(G, psi) acts as D.O.D on Fock space; two operators in succession = the product operator"""
    sym = spec["sym"]
    bases, index_maps = spec["bases"], spec["index_maps"]
    n = len(bases)
    modes = sorted({m for b in bases for st in b for m in st})
    F = Fock(modes)
    like = like_for(S)
    t1 = [(S.scalar(f"c{k}"), ops) for k, (_, ops) in enumerate(spec["terms"])]
    if spec.get("first_literal") is not None:
        t1[0] = (spec["first_literal"], t1[0][1])
    G1 = sr.build_local_fermionic_array(lib_terms(S, t1), lib_bases(bases), sym, index_maps=list(index_maps), like=like)
    addr = [leg_address(im) for im in index_maps]
    psi = state_tensor(S, sym, index_maps, spec["charge"], ("psi", 1))
    if psi is None:
        return
    ax = (tuple(range(n, 2 * n)), tuple(range(n)))
    r1 = sr.tensordot(G1, psi, axes=ax, preserve_array=True)

    def fock_apply(terms, amp):
        """amp: {basis tuple idx: amplitude} -> D.O.D applied"""
        out = {}
        for idx_in, a in amp.items():
            states_in = [bases[s][idx_in[s]] for s in range(n)]
            d_in = dsign(states_in)
            for idx_out in itertools.product(*[range(len(b)) for b in bases]):
                states_out = [bases[s][idx_out[s]] for s in range(n)]
                d_out = dsign(states_out)
                full_bra = [(m, False) for m, _ in reversed(ket(states_out))]
                tot = 0
                for c, ops in terms:
                    v = F.vev(full_bra + list(ops) + ket(states_in))
                    if v:
                        tot = tot + (c if v == 1 else -c)
                if not (isinstance(tot, int) and tot == 0):
                    val = tot * a
                    if d_in * d_out == -1:
                        val = -val
                    out[idx_out] = (out[idx_out] + val) if idx_out in out else val
        return out

    def amp_of(x):
        c = orc.coords(x)
        out = {}
        for idx in itertools.product(*[range(len(b)) for b in bases]):
            a = tuple(addr[s][i] for s, i in enumerate(idx))
            if a in c:
                out[idx] = c[a]
        return out, c

    a0, _ = amp_of(psi)
    want = fock_apply(t1, a0)
    got, craw = amp_of(r1) if isinstance(r1, sr.AbelianArray) else ({}, {})
    for idx in itertools.product(*[range(len(b)) for b in bases]):
        S.equal(f"action{idx}", got.get(idx, 0), want.get(idx, 0))
    if spec.get("terms2"):
        t2 = [(S.scalar(f"d{k}"), ops) for k, (_, ops) in enumerate(spec["terms2"])]
        G2 = sr.build_local_fermionic_array(lib_terms(S, t2), lib_bases(bases), sym, index_maps=list(index_maps), like=like)
        t12 = [(c2 * c1, list(o2) + list(o1)) for c2, o2 in t2 for c1, o1 in t1]
        G12 = sr.build_local_fermionic_array(lib_terms(S, t12), lib_bases(bases), sym, index_maps=list(index_maps), like=like)
        if isinstance(r1, sr.AbelianArray) and r1.blocks:
            r2 = sr.tensordot(G2, r1, axes=ax, preserve_array=True)
            r12 = sr.tensordot(G12, psi, axes=ax, preserve_array=True)
            c2_, c12_ = orc.coords(r2), orc.coords(r12)
            for k in set(c2_) | set(c12_):
                S.equal(f"product@{k}", c2_.get(k, 0), c12_.get(k, 0))


BODIES = {f.__name__: f for f in (body_elements, body_model, body_action, body_array)}


def _run(case):
    return run_case(BODIES[case["body"]], case["spec"], complex_=case.get("complex", False), validate=case.get("validate", False),
                    want_sample=case.get("sample", False), seed=case.get("seed", 0), max_paths=64, wall_limit=120)


def strings(modes, maxlen):
    ops = [(m, cr) for m in modes for cr in (True, False)]
    out = []
    for L in range(1, maxlen + 1):
        out += [tuple(s) for s in itertools.product(ops, repeat=L)]
    return out


def number_conserving(ops, charge_of):
    return True


def build_family(tier, seed):
    rng = random.Random(seed)
    thorough = tier == "thorough"
    groups = {}
    # (a) elements
    el = []
    base_sets = [
        [[(), ("a",)]],
        [[("a",), ()]],
        [[(), ("a",)], [(), ("b",)]],
        [[("a",)], [(), ("b",)]],
        [[(), ("d",), ("u",), ("u", "d")]],
        [[(), ("u",), ("d",), ("d", "u")]],
        [[("u", "d"), ()], [(), ("b",)]],
        [[(), ("a",)], [(), ("b",)], [(), ("c",)]],
    ]
    for bs in base_sets:
        modes = sorted({m for b in bs for st in b for m in st})
        ss = strings(modes, 4 if len(modes) <= 2 else (3 if not thorough else 4))
        ss, _ = fam.thin(ss, 400 if not thorough else 4000, seed + len(modes) + len(bs))
        for s in ss:
            el.append(dict(bases=bs, terms=[(None, list(s))]))
        # sums of 2-3 terms
        for k in range(60 if not thorough else 600):
            tl = [(None, list(rng.choice(ss))) for _ in range(rng.choice((2, 3)))]
            el.append(dict(bases=bs, terms=tl))
        # the empty operator string (a constant shift: <0|0> = 1 on the diagonal), alone and inside sums
        el.append(dict(bases=bs, terms=[(None, [])]))
        for k in range(6):
            el.append(dict(bases=bs, terms=[(None, list(rng.choice(ss))), (None, [])] + ([(None, list(rng.choice(ss)))] if k % 2 else [])))
    if thorough:
        for bs in base_sets[:3]:
            modes = sorted({m for b in bs for st in b for m in st})
            ss = strings(modes, 6)
            ss = [s for s in ss if len(s) >= 5]
            ss, _ = fam.thin(ss, 1500, seed + 99)
            for s in ss:
                el.append(dict(bases=bs, terms=[(None, list(s))]))
    groups["elements"] = ([dict(body="body_elements", spec=c, validate=(i % 100 == 0), sample=(i % 1500 == 0), seed=seed + i) for i, c in enumerate(el)], False)
    # (b) model builders
    mb = []
    for sym in ("Z2", "U1"):
        for sd in (False, True):
            for zz in ((1, 1), (2, 3), (4, 1)):
                mb.append(dict(sym=sym, model="spinless", site_dependent=sd, coordinations=zz))
        mb.append(dict(sym=sym, model="number_spinless", site_dependent=False, coordinations=(1, 1)))
    for sym in ("Z2", "U1", "Z2Z2", "U1U1"):
        for sd in (False, True):
            for zz in ((1, 1), (2, 3), (3, 1)):
                mb.append(dict(sym=sym, model="spinful", site_dependent=sd, coordinations=zz))
        mb.append(dict(sym=sym, model="number_spinful", site_dependent=False, coordinations=(1, 1)))
        mb.append(dict(sym=sym, model="spin", site_dependent=False, coordinations=(1, 1)))
    groups["models"] = ([dict(body="body_model", spec=c, sample=(i % 10 == 0), seed=seed + i) for i, c in enumerate(mb)], True)
    # complex coefficients (hopping phases): the imaginary part must survive the builders (also a C20 clause)
    groups["models-complex-coefficients"] = ([dict(body="body_model", spec=c, complex=True, seed=seed + i) for i, c in enumerate(mb) if c["model"] in ("spinless", "spinful")][::2], False)
    groups["elements-complex-coefficients"] = ([dict(body="body_elements", spec=c, complex=True, seed=seed + i) for i, c in enumerate(el[::12])], False)
    # (c) action on state tensors
    ac = []
    confs = [
        ("Z2", [[(), ("a",)]], [[0, 1]]), ("U1", [[(), ("a",)]], [[0, 1]]),
        ("Z2", [[(), ("a",)], [(), ("b",)]], [[0, 1], [0, 1]]), ("U1", [[(), ("a",)], [(), ("b",)]], [[0, 1], [0, 1]]),
        ("Z2", [[(), ("d",), ("u",), ("u", "d")]], [[0, 1, 1, 0]]), ("U1", [[(), ("d",), ("u",), ("u", "d")]], [[0, 1, 1, 2]]),
        ("U1U1", [[(), ("d",), ("u",), ("u", "d")]], [[(0, 0), (0, 1), (1, 0), (1, 1)]]),
        ("Z2", [[(), ("a",)], [(), ("b",)], [(), ("c",)]], [[0, 1]] * 3), ("U1", [[(), ("a",)], [(), ("b",)], [(), ("c",)]], [[0, 1]] * 3),
        ("Z2", [[(), ("ad",), ("au",), ("au", "ad")], [(), ("bd",), ("bu",), ("bu", "bd")]], [[0, 1, 1, 0]] * 2),
        ("Z2Z2", [[(), ("d",), ("u",), ("u", "d")]], [[(0, 0), (0, 1), (1, 0), (1, 1)]]),
        ("Z2Z2", [[(), ("ad",), ("au",), ("au", "ad")], [(), ("bd",), ("bu",), ("bu", "bd")]], [[(0, 0), (0, 1), (1, 0), (1, 1)]] * 2),
        ("U1U1", [[(), ("ad",), ("au",), ("au", "ad")], [(), ("bd",), ("bu",), ("bu", "bd")]], [[(0, 0), (0, 1), (1, 0), (1, 1)]] * 2),
    ]
    for sym, bs, ims in confs:
        modes = sorted({m for b in bs for st in b for m in st})
        # operators that conserve the symmetry charge: built from pairs (create m, annihilate m') - even strings
        pairs = [[(m, True), (m2, False)] for m in modes for m2 in modes]
        if sym in ("U1U1", "Z2Z2"):
            pairs = [[(m, True), (m, False)] for m in modes]
            ups = [m for m in modes if m.endswith("u")]
            downs = [m for m in modes if m.endswith("d")]
            for grp in (ups, downs):
                pairs += [[(m, True), (m2, False)] for m in grp for m2 in grp if m != m2]
            if sym == "Z2Z2":
                pairs += [[(m, True), (m2, True)] for grp in (ups, downs) for m in grp for m2 in grp if m < m2]
        ops_list = [p for p in pairs] + [p + q for p in pairs[:3] for q in pairs[:3]] + [[]]
        if sym == "Z2":
            ops_list += [[(m, True), (m2, True)] for m in modes for m2 in modes if m != m2][:4] + [[(m, False), (m2, False)] for m in modes for m2 in modes if m != m2][:2]
        charges = sorted({gs.combine(sym, list(sec)) for sec in itertools.product(*[sorted(set(im)) for im in ims])}, key=repr)
        for q in charges:
            for k in range(10 if not thorough else 60):
                tl = [(None, rng.choice(ops_list)) for _ in range(rng.choice((1, 2, 3)))]
                tl2 = [(None, rng.choice(ops_list)) for _ in range(rng.choice((1, 2)))] if k % 2 == 0 else None
                ac.append(dict(sym=sym, bases=bs, index_maps=ims, charge=q, terms=tl, terms2=tl2, first_literal=(None, 1, None, 3)[k % 4]))
    # arrays over heterogeneous bases: sites with different orderings / subsets of states and hence different charge maps
    ar_ = []
    het = [
        ("U1", [[(), ("a",)], [("b",), ()]], [[0, 1], [1, 0]]),
        ("Z2", [[(), ("a",)], [("b",), ()]], [[0, 1], [1, 0]]),
        ("U1", [[(), ("a",)], [(), ("d",), ("u",), ("u", "d")]], [[0, 1], [0, 1, 1, 2]]),
        ("Z2", [[("a",)], [(), ("b",)], [("c",), ()]], [[1], [0, 1], [1, 0]]),
        ("U1", [[(), ("a",)], [("b",), ()], [(), ("c",)]], [[0, 1], [1, 0], [0, 1]]),
        ("U1U1", [[(), ("d",), ("u",), ("u", "d")], [("v", "w"), ("v",), ("w",), ()]], [[(0, 0), (0, 1), (1, 0), (1, 1)], [(1, 1), (1, 0), (0, 1), (0, 0)]]),
        # orderings whose charge maps interleave the charges (positions of one charge not contiguous, with gaps of width one)
        ("Z2", [[(), ("d",), ("u", "d"), ("u",)]], [[0, 1, 0, 1]]),
        ("Z2", [[(), ("d",), ("u", "d")], [(), ("b",)]], [[0, 1, 0], [0, 1]]),
        ("U1", [[("a",), (), ("b",)]], [[1, 0, 1]]),
        ("U1", [[(), ("d",), ("u", "d"), ("u",)], [("b",), ()]], [[0, 1, 2, 1], [1, 0]]),
        ("Z2", [[("u",), (), ("d",), ("u", "d")], [(), ("d2",), ("u2", "d2"), ("u2",)]], [[1, 0, 1, 0], [0, 1, 0, 1]]),
    ]
    for sym, bs, ims in het:
        modes = sorted({m for b in bs for st in b for m in st})
        pairs = [[(m, True), (m2, False)] for m in modes for m2 in modes]
        if sym == "U1U1":
            pairs = [[(m, True), (m, False)] for m in modes] + [[("u", True), ("v", False)], [("v", True), ("u", False)], [("d", True), ("w", False)]]
        opsl = pairs + [p_ + q_ for p_ in pairs[:3] for q_ in pairs[-3:]] + [[]]  # ([]: the constant term)
        if sym == "Z2":
            opsl += [[(m, True), (m2, True)] for m in modes for m2 in modes if m < m2][:3]
        for k in range(12 if not thorough else 80):
            ar_.append(dict(sym=sym, bases=bs, index_maps=ims, terms=[(None, rng.choice(opsl)) for _ in range(rng.choice((1, 2, 3)))],
                            first_literal=(None, 1, 2, 0.5)[k % 4]))
    groups["array-heterogeneous-bases"] = ([dict(body="body_array", spec=c, sample=(i % 30 == 0), seed=seed + i) for i, c in enumerate(ar_)], False)
    groups["action"] = ([dict(body="body_action", spec=c, sample=(i % 100 == 0), seed=seed + i) for i, c in enumerate(ac)], False)
    return groups


def run(tier, seed, only=None):
    rep = Report(PID, tier, seed)
    rep.explanation = (
        "Symbolic coefficients flow through the real builders (a tiny autoray backend whose zeros are object arrays is passed as like=): "
        "(a) every element returned by build_local_fermionic_elements for term lists with symbolic coefficients (operator strings up to length 4, 6 in "
        "thorough; sums of 2-3 terms; bases that are subsets/re-orderings with any operator order inside a state; 1-3 sites) equals the vacuum expectation "
        "value computed by an independent Jordan-Wigner Fock-space oracle (a linear identity in the coefficients, decided by z3); (b) the five model builders "
        "with symbolic t, U, V, mu (site-dependent pairs, coordinations) and both charge maps for all supported symmetries equal the elements of the documented "
        "Hamiltonian; (c) for symbolic state tensors of every total charge, tensordot(G, psi) equals D.O.D applied to psi (O the Fock matrix, "
        "D = (-1)^{sum over site pairs N_s N_s'} depending only on the bases), and applying two operator arrays in succession equals the array of the product operator.")
    rep.rule = "case = (term list shape, bases) / (model, symmetry, options) / (symmetry, bases, charge, operator, second operator); non-trivial = produced obligations"
    rep.functions = ["build_local_fermionic_elements", "_dagger_basis", "_parse_terms/_parse_bases", "build_local_fermionic_dense/array", "get_spinless/spinful_charge_indexmap",
                     "fermi_hubbard_local_array", "fermi_hubbard_spinless_local_array", "fermi_number_operator_*", "fermi_spin_operator_local_array", "utils.from_dense", "tensordot_fermionic"]
    rep.bounds = {"string length": "<=4 (6 thorough)", "modes": "<=4", "sites": "1..3", "state tensors": "every total charge of the listed configurations"}
    rep.trusted.append("Hermitian term sets give Hermitian maps with the exact spectrum: follows from D = D^-1 (similarity), not mechanised")
    rep.outside = ["strings longer than 6, more than 4 modes / 3 sites", "non-numeric coefficient types", "complex *state* amplitudes in the action group"]
    groups = build_family(tier, seed)
    run_groups(rep, groups, _run, only)
    return rep.finish()
