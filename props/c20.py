"""C20 (partial) — element type is preserved: zero blocks have the type of the data they join and the
imaginary part is never discarded (engine B, cast trap).  The dtype-*promotion* clause (float32 stays
float32 through numpy's type resolution) is not applicable to this technique; see DESIGN.md §5."""
import itertools
import random

import numpy as np

from vlib import env  # noqa
import symmray as sr

from vlib import families as fam
from vlib import oracle as orc
from vlib import sym as gs
from vlib import zt
from vlib.build import build, build_vector
from vlib.driver import Report
from vlib.par import pmap, run_groups
from vlib.session import run_case, Violation

PID = "C20"
MACHINE = (float, complex, np.floating, np.complexfloating)


def to_single(x, complex_):
    """numeric replays run in single precision so that a silently created float64 zero block is visible in the dtype"""
    def cast(b):
        if isinstance(b, np.ndarray) and b.dtype != object:
            return b.astype(np.complex64 if np.iscomplexobj(b) else np.float32)
        return b
    x.apply_to_arrays(cast)
    return x


def expected_dtype(*arrays):
    cx = any(any(np.iscomplexobj(b) for b in a.blocks.values()) for a in arrays)
    return np.dtype(np.complex64 if cx else np.float32)


def check_types(S, name, r, *inputs):
    """sym: no machine number among the terms; num: every block has the inputs' (single precision) dtype"""
    blocks = []
    if isinstance(r, (sr.AbelianArray, sr.BlockVector)):
        blocks = list(r.blocks.items())
    elif isinstance(r, np.ndarray):
        blocks = [("dense", r)]
    for key, b in blocks:
        if S.mode == "sym":
            b = np.asarray(b)
            S.require(f"{name}:block-type{key}", b.dtype == object, f"block {key} has machine dtype {b.dtype}: symbolic data was cast / a machine-typed array replaced it")
            bad = [type(e).__name__ for e in b.reshape(-1) if isinstance(e, MACHINE)]
            S.require(f"{name}:block-type{key}", not bad, f"block {key} holds machine numbers {bad[:3]} among the terms: a zero block was created without the data's dtype")
        else:
            want = expected_dtype(*inputs)
            got = np.asarray(b).dtype
            S.require(f"{name}:block-type{key}", got == want, f"block {key} has dtype {got}, the data it joins has {want}")


def close(S, name, a, b):
    if S.mode == "sym":
        S.equal(name, a, b)
    else:
        a, b = complex(a), complex(b)
        S.holds(name, abs(a - b) <= 2e-4 * max(1.0, abs(a), abs(b)))


def same_coords(S, name, r, ref_coords):
    c = orc.coords(r)
    for k in set(c) | set(ref_coords):
        close(S, f"{name}@{k}", c.get(k, 0), ref_coords.get(k, 0))


def body_zero_fill(S, spec):
    x = build(S, spec["a"])
    if S.mode == "num":
        to_single(x, S.complex_)
    ref = orc.coords(x)
    fermionic = orc.is_fermionic(x)
    op = spec["op"]
    if op == "fuse":
        g = spec["groups"]
        # history: an ordinary float64 array of the same structure is fused first (the symbolic / single-precision one
        # must not inherit anything - such as the dtype of freshly created zero blocks - from that earlier call)
        import random as _r
        from vlib.session import Session as _Sess
        warm = build(_Sess("num", rng=_r.Random(5)), dict(spec["a"], name="w"))
        for mode in ((None,) if fermionic else ("insert", "concat")):
            (warm.fuse(*g) if mode is None else warm.fuse(*g, mode=mode))
        for mode in ((None,) if fermionic else ("insert", "concat")):
            y = x.fuse(*g) if mode is None else x.fuse(*g, mode=mode)
            check_types(S, f"fuse[{mode}]", y, x)
            z = y.unfuse_all()
            check_types(S, f"fuse[{mode}]+unfuse", z, x)
            # the round trip must give back every entry, imaginary parts included (axes come back permuted into group order)
            grouped = [a for gg in g for a in gg]
            position = min(grouped)
            perm = [a for a in range(position) if a not in grouped] + grouped + [a for a in range(position, x.ndim) if a not in grouped]
            if not fermionic:
                exp = {tuple(k[p] for p in perm): v for k, v in ref.items()}
                same_coords(S, f"fuse[{mode}]+unfuse", z, exp)
    elif op == "to_dense":
        D = x.to_dense()
        check_types(S, "to_dense", D, x)
        Dr, L = orc.dense_of(x, dtype=object if S.mode == "sym" else np.complex128)
        S.require("to_dense:shape", tuple(np.shape(D)) == tuple(Dr.shape), "shape")
        for idx in np.ndindex(*Dr.shape):
            close(S, f"to_dense{idx}", D[idx], Dr[idx])
    elif op == "fill_missing_blocks":
        y = x.copy()
        y.fill_missing_blocks()
        check_types(S, "fill_missing_blocks", y, x)
        same_coords(S, "fill_missing_blocks", y, ref)
    elif op == "reshape":
        y = x.reshape((-1,))
        check_types(S, "reshape", y, x)
        z = y.reshape(x.shape)
        check_types(S, "reshape-back", z, x)
        same_coords(S, "reshape-back", z, ref)
    elif op == "tensordot":
        b = build(S, spec["b"])
        if S.mode == "num":
            to_single(b, S.complex_)
        r1 = sr.tensordot(x, b, axes=spec["axes"], mode="blockwise", preserve_array=True)
        r2 = sr.tensordot(x, b, axes=spec["axes"], mode="fused", preserve_array=True)
        check_types(S, "tensordot[blockwise]", r1, x, b)
        check_types(S, "tensordot[fused]", r2, x, b)
        same_coords(S, "tensordot[fused=blockwise]", r2, orc.coords(r1))
    elif op == "multiply_diagonal":
        ax = spec["axis"]
        cm = dict(spec["a"]["indices"][ax][0])
        v = build_vector(S, "v", list(cm.items()), complex_=spec["v_complex"])
        if S.mode == "num":
            to_single(v, spec["v_complex"])
        y = x.multiply_diagonal(v, ax)
        exp = {k: val * v.blocks[k[ax][0]][k[ax][1]] for k, val in ref.items()}
        same_coords(S, "multiply_diagonal", y, exp)
        check_types(S, "multiply_diagonal", y, x, v)
    elif op == "add_mixed":
        y = build(S, spec["b"])
        if S.mode == "num":
            to_single(y, S.complex_)
        r = x + y
        cy = orc.coords(y)
        exp = {k: ref.get(k, 0) + cy.get(k, 0) for k in set(ref) | set(cy)}
        same_coords(S, "add", r, exp)
        # (mixed real/complex blocks are legitimate for +: blocks present in one operand are kept as they are)
    elif op == "mixed_then":
        # a real array (concrete float64 blocks, also in the symbolic run) plus a complex one storing other sectors: the sum legitimately has
        # blocks of both types.  Every later operation must keep the imaginary parts: with a real example block the zero blocks it creates are
        # machine float64 arrays, and writing a complex term into one is a cast trap (replayed with complex numbers, where numpy discards silently).
        y = build(S, spec["b"])
        if S.mode == "num":
            to_single(y, True)
        cy = orc.coords(y)
        exp = {k: ref.get(k, 0) + cy.get(k, 0) for k in set(ref) | set(cy)}

        def compare(nm_, got, want):
            """got/want: dicts of entries.  sym: obligations; num: one structural finding under the name the symbolic run uses"""
            if S.mode == "sym":
                for k in set(got) | set(want):
                    close(S, f"{nm_}@{k}", got.get(k, 0), want.get(k, 0))
            else:
                bad = [k for k in set(got) | set(want)
                       if abs(complex(got.get(k, 0)) - complex(want.get(k, 0))) > 2e-4 * max(1.0, abs(complex(want.get(k, 0))))]
                if bad:
                    S.structural.append((f"{nm_}:value-lost", f"entries differ at {bad[:3]}: got {[got.get(k, 0) for k in bad[:3]]} want {[want.get(k, 0) for k in bad[:3]]}"))

        for order in ("real-first", "complex-first"):
            r = (x + y) if order == "real-first" else (y + x)
            compare(f"{order}:add", orc.coords(r), exp)
            for then in spec["then"]:
                nm_ = f"{order}:{then}"
                try:
                    if then in ("fuse-insert", "fuse-concat"):
                        g = spec["groups"]
                        z = r.fuse(*g, mode=then[5:]).unfuse_all()
                        grouped = [a for gg in g for a in gg]
                        position = min(grouped)
                        perm = [a for a in range(position) if a not in grouped] + grouped + [a for a in range(position, r.ndim) if a not in grouped]
                        compare(nm_, orc.coords(z), {tuple(k[p] for p in perm): v for k, v in exp.items()})
                    elif then == "to_dense":
                        D = r.to_dense()
                        Dr, L = orc.dense_of(r, dtype=object if S.mode == "sym" else np.complex128)
                        compare(nm_, {idx: D[idx] for idx in np.ndindex(*Dr.shape)}, {idx: Dr[idx] for idx in np.ndindex(*Dr.shape)})
                    elif then == "reshape":
                        compare(nm_, orc.coords(r.reshape((-1,)).reshape(r.shape)), exp)
                    elif then == "fill_missing_blocks":
                        z = r.copy()
                        z.fill_missing_blocks()
                        compare(nm_, orc.coords(z), exp)
                    elif then == "transpose":
                        perm = tuple(reversed(range(r.ndim)))
                        compare(nm_, orc.coords(r.transpose(perm)), {tuple(k[p] for p in perm): v for k, v in exp.items()})
                    elif then == "tensordot-fused":
                        ax = (tuple(range(1, r.ndim)), tuple(range(1, r.ndim)))
                        t1 = sr.tensordot(r, r.conj(), axes=ax, mode="blockwise", preserve_array=True)
                        t2 = sr.tensordot(r, r.conj(), axes=ax, mode="fused", preserve_array=True)
                        compare(nm_, orc.coords(t2), orc.coords(t1))
                    elif then == "norm":
                        n = r.norm()
                        tot = 0
                        for v in exp.values():
                            tot = tot + v * (v.conjugate() if hasattr(v, "conjugate") else np.conj(v))
                        n = zt.as_Z(n) if S.mode == "sym" else complex(n)
                        compare(nm_, {"n2": n * n}, {"n2": tot})
                except Violation as v:
                    S.structural.append((v.name, v.detail))
                except Exception as e:  # (library exceptions only: path-steering exceptions are BaseException)
                    S.structural.append((f"{nm_}:value-lost", f"raised {type(e).__name__}: {e}"))
    elif op == "scalar":
        s = S.scalar("s", complex_=True)
        r = x * s
        same_coords(S, "mul_complex_scalar", r, {k: v * s for k, v in ref.items()})
        check_types(S, "mul_complex_scalar", r) if S.mode == "sym" else None
    elif op == "conj_norm":
        r = x.conj()
        if not fermionic:  # (the fermionic conj carries extra signs: its values are C10's subject)
            same_coords(S, "conj", r, {k: (v.conjugate() if hasattr(v, "conjugate") else np.conj(v)) for k, v in ref.items()})
        check_types(S, "conj", r, x)
        n = x.norm()
        tot = 0
        for v in ref.values():
            tot = tot + v * (v.conjugate() if hasattr(v, "conjugate") else np.conj(v))
        if S.mode == "sym":
            g = zt.as_Z(n)
            S.equal("norm^2", g * g, tot)
        else:
            S.holds("norm^2", abs(complex(n) ** 2 - complex(tot)) <= 2e-4 * max(1, abs(complex(tot))))
            S.holds("norm-real", abs(complex(n).imag) < 1e-6)


BODIES = {"body_zero_fill": body_zero_fill}
try:
    from props import c18 as _c18
    BODIES.update({k: _c18.BODIES[k] for k in ("body_model", "body_elements") if k in _c18.BODIES})
except Exception:  # pragma: no cover
    pass


def _run(case):
    if case.get("body") in ("body_model", "body_elements", "body_array"):
        from props import c18  # the local-operator builders with complex coefficients (bodies and symbolic zeros backend of C18)
        return c18._run(case)
    return run_case(body_zero_fill, case["spec"], complex_=case.get("complex", True), validate=False, want_sample=case.get("sample", False),
                    seed=case.get("seed", 0), max_paths=16, wall_limit=60)


def build_family(tier, seed):
    rng = random.Random(seed)
    thorough = tier == "thorough"
    groups = {}
    for sym, generic, fermionic in [("Z2", False, False), ("U1", False, False), ("U1U1", False, False), ("Z2", False, True), ("U1", True, True)]:
        two, one = fam.std_tables(sym, thorough, n_two=2, n_one=1)
        nm = f"{sym}{'-generic' if generic else ''}{'-fermionic' if fermionic else ''}"
        cases = []
        for nd in (2, 3, 4):
            tb = (two + one) if nd == 2 else (two[:2] if nd == 3 else two[:1])
            arrs = [a for a in fam.array_specs(sym, nd, tb, fermionic=fermionic, generic=generic, sparsity_threshold=3 if nd < 4 else 2, phases=False, rng=rng, labels=(2,))]
            # sparsity that forces zero-block creation: at least one valid sector missing
            arrs = [a for a in arrs if len(a["present"]) < len(fam.sectors_of(sym, a["indices"], a["charge"]))]
            arrs, _ = fam.thin(arrs, {2: 150, 3: 250, 4: 120}[nd] if not thorough else {2: 1500, 3: 2500, 4: 1200}[nd], seed + nd)
            gl = fam.ordered_groupings(nd, max_groups=2)
            gl = [g for g in gl if any(len(x) >= 2 for x in g)]
            for k, a in enumerate(arrs):
                for g in (gl[k % len(gl)], gl[(k * 7 + 3) % len(gl)]):
                    cases.append(dict(a=a, op="fuse", groups=g))
                for op in ("to_dense", "fill_missing_blocks", "reshape", "conj_norm", "scalar"):
                    cases.append(dict(a=a, op=op))
                for ax in range(nd):
                    cases.append(dict(a=a, op="multiply_diagonal", axis=ax, v_complex=True))
        groups[f"zero-fill-complex/{nm}"] = ([dict(body="body_zero_fill", spec=c, complex=True, sample=(i % 600 == 0), seed=seed + i) for i, c in enumerate(cases)], False)
        # real arrays with a complex diagonal / complex scalar / complex partner: the imaginary part must survive
        mixed = [dict(c, ) for c in cases if c["op"] in ("multiply_diagonal", "scalar")]
        groups[f"real-array-complex-factor/{nm}"] = ([dict(body="body_zero_fill", spec=c, complex=False, seed=seed + i) for i, c in enumerate(mixed[::2])], False)
        # contraction through the fused path with misaligned sectors
        td = []
        for na, nb in [(2, 2), (3, 2), (3, 3)]:
            structs = fam.pair_structs(sym, na, nb, two[:2] + one[:1], two[:1], ks=(1, 2))
            structs, _ = fam.thin(structs, 100 if not thorough else 1000, seed + na + nb)
            for st in structs:
                for A, B, axes, ex2 in fam.expand_pair(sym, st, rng, generic=generic, fermionic=fermionic, max_pairs=3, phases=False, labels=(1, 2)):
                    td.append(dict(a=A, b=B, op="tensordot", axes=axes))
        td, _ = fam.thin(td, 1200 if not thorough else 12000, seed + 3)
        groups[f"tensordot-fused-complex/{nm}"] = ([dict(body="body_zero_fill", spec=c, complex=True, seed=seed + i) for i, c in enumerate(td)], False)
        if not fermionic:
            # real + complex with different stored sectors (mixed-dtype results are legitimate; values must be right)
            am = []
            for k, a in enumerate(c["a"] for c in cases if c["op"] == "to_dense"):
                secs = fam.sectors_of(sym, a["indices"], a["charge"])
                other = tuple(s for s in secs if s not in a["present"][:1])
                if other:
                    am.append(dict(a=dict(a, cx=()), b=dict(a, present=other, cx=other, name="b"), op="add_mixed"))
            groups[f"add-real-complex/{nm}"] = ([dict(body="body_zero_fill", spec=c, complex=False, seed=seed + i) for i, c in enumerate(am[::3])], False)
            # ... and what later operations make of such a sum (real example block, complex data elsewhere)
            gl2 = {nd: [g for g in fam.ordered_groupings(nd, max_groups=2) if any(len(x) >= 2 for x in g)] for nd in (2, 3, 4)}
            mt = []
            for k, c in enumerate(am):
                nd = len(c["a"]["indices"])
                a_ = dict(c["a"], present=c["a"]["present"][:1], machine=c["a"]["present"][:1], cx=())
                mt.append(dict(a=a_, b=c["b"], op="mixed_then", groups=gl2[nd][k % len(gl2[nd])],
                               then=("fuse-insert", "fuse-concat", "to_dense", "reshape", "fill_missing_blocks", "transpose", "tensordot-fused", "norm")))
            mt, _ = fam.thin(mt, 150 if not thorough else 1500, seed + 9)
            groups[f"mixed-sum-then/{nm}"] = ([dict(body="body_zero_fill", spec=c, complex=True, seed=seed + i) for i, c in enumerate(mt)], False)
    # complex coefficients through the local fermionic operator builders: their accumulation buffer must be complex (a real buffer is
    # modelled by an object array that traps complex writes; numeric replays use numpy complex64 scalars)
    from props import c18
    g18 = c18.build_family(tier, seed)
    for k in ("models-complex-coefficients", "elements-complex-coefficients"):
        groups[f"local-operators/{k}"] = g18[k]
    return groups


def classify(v):
    import re
    # the three routes into _fuse_blocks_via_insert with a real example block in front of complex data (known finding); anything else
    # in that family (complex-first, concat, to_dense, fill_missing_blocks, transpose, norm, the sum itself) is reported
    if re.fullmatch(r"real-first:(fuse-insert|reshape|tensordot-fused):value-lost", str(v.get("name", ""))) and str(v.get("group", "")).startswith("mixed-sum-then"):
        return {"defect": "fuse-insert-zero-block-type-from-first-block"}
    return {}


def run(tier, seed, only=None):
    rep = Report(PID, tier, seed)
    rep.explanation = (
        "Partial claim, decided by the cast trap of the term layer: (i) zero blocks have the type of the data they join - every operation that must create zero "
        "blocks (fusing with missing sub-blocks in both strategies, unfuse, densification, fill_missing_blocks, reshape, contraction through the fused path) "
        "runs on blocks of z3 terms; a zero array created without the example block's dtype is a machine float64 array and shows up either as a symbolic entry "
        "being written into it (cast trap) or as machine floats merged among the terms; every such finding is replayed with ordinary numpy blocks in *single "
        "precision* (float32/complex64), where the wrong dtype is directly visible. (ii) the imaginary part is never discarded: with complex entries (and real "
        "arrays meeting complex vectors/scalars) every value identity (round trips, densification, products, conj, norm) is decided by z3, and any real cast of a "
        "complex entry is a cast trap. dtype names reported for symbolic blocks are the modelled machine dtype, so code keyed on the dtype name behaves as for numpy users. "
        "(iii) sums of a real and a complex array with different stored sectors (blocks of both machine types: the real blocks are concrete float64 arrays also in the symbolic run, "
        "so that the library sees a real example block) followed by fuse (both strategies), reshape, to_dense, fill_missing_blocks, transpose, fused-mode tensordot, norm: writing a complex term into a real zero block is a cast trap. "
        "NOT claimed: that numpy's type resolution keeps float32/complex64 un-promoted through every ufunc/LAPACK call (not applicable to this technique).")
    rep.rule = "case = (sparse array structure, zero-block-creating operation, arguments); non-trivial = produced obligations"
    rep.functions = ["build_local_fermionic_dense / fermi_hubbard*_local_array (complex coefficients)", "_fuse_core zeros_kwargs / _fuse_blocks_via_insert / _fuse_blocks_via_concat", "AbelianArray.to_dense filler", "fill_missing_blocks", "_tensordot_via_fused",
                     "multiply_diagonal", "BlockBase.dtype / conj / norm", "reshape"]
    rep.bounds = {"rank": "2..4", "charges_per_index": "<=2", "block_sizes": "1..2", "replay dtype": "float32 / complex64"}
    rep.outside = ["dtype promotion inside numpy (float32 -> float64) for operations that create no zero blocks: not applicable", "linalg results (real parts for spectra)", "random() dtype casting"]
    groups = build_family(tier, seed)
    run_groups(rep, groups, _run, only)
    return rep.finish(classify)
