"""C14 — operations never modify their operands unless asked to; in-place == out-of-place (engine B)."""
import copy
import itertools
import random

import numpy as np

from vlib import env  # noqa
import symmray as sr

from vlib import families as fam
from vlib import ops
from vlib import oracle as orc
from vlib import sym as gs
from vlib import zt
from vlib.build import build, build_vector
from vlib.driver import Report
from vlib.par import pmap, run_groups
from vlib.session import run_case, Violation

PID = "C14"


def snapshot(x):
    """observable state: block keys in order, element terms in order, shapes, index tables, charge, signs, labels"""
    if isinstance(x, sr.BlockVector):
        return ("vec", [(k, np.shape(b), list(np.asarray(b, dtype=object).reshape(-1))) for k, b in x.blocks.items()])
    st = {
        "keys": list(x.blocks),
        "blocks": [(np.shape(b), list(np.asarray(b, dtype=object).reshape(-1))) for b in x.blocks.values()],
        "indices": [orc.index_sig(i) for i in x.indices],
        "charge": x.charge,
    }
    if orc.is_fermionic(x):
        st["phases"] = sorted(x.phases.items(), key=repr)
        st["labels"] = orc.labels_of(x)
    return st


def compare_snapshot(S, name, before, x):
    after = snapshot(x)
    if before[0] == "vec" if isinstance(before, tuple) else False:
        S.require(name + ":vec-keys", [k for k, _, _ in before[1]] == [k for k, _, _ in after[1]], "vector blocks changed")
        for (k, sh, els), (_, sh2, els2) in zip(before[1], after[1]):
            S.require(name + ":vec-shape", sh == sh2, "vector block shape changed")
            for i, (a, b) in enumerate(zip(els, els2)):
                S.equal(f"{name}:vec@{k}[{i}]", b, a)
        return
    S.require(name + ":keys", before["keys"] == after["keys"], f"stored sectors/order changed: {before['keys']} -> {after['keys']}")
    S.require(name + ":indices", before["indices"] == after["indices"], "index tables changed")
    S.require(name + ":charge", before["charge"] == after["charge"], f"charge changed {before['charge']!r} -> {after['charge']!r}")
    if "phases" in before:
        S.require(name + ":phases", before["phases"] == after["phases"], f"pending signs changed {before['phases']} -> {after['phases']}")
        S.require(name + ":labels", before["labels"] == after["labels"], "labels changed")
    for k, (sh, els), (sh2, els2) in zip(before["keys"], before["blocks"], after["blocks"]):
        S.require(name + ":shape", sh == sh2, f"block {k} shape changed")
        for i, (a, b) in enumerate(zip(els, els2)):
            S.equal(f"{name}:block{k}[{i}]", b, a)


def same_state(S, name, a, b):
    """a (in-place result) must be exactly the value b (out-of-place result)"""
    S.require(name + ":type", type(a) is type(b), f"{type(a).__name__} vs {type(b).__name__}")
    if isinstance(a, sr.AbelianArray):
        S.require(name + ":indices", [orc.index_sig(i) for i in a.indices] == [orc.index_sig(i) for i in b.indices], "indices differ")
        S.require(name + ":charge", a.charge == b.charge, "charge differs")
        S.require(name + ":sectors", list(a.blocks) == list(b.blocks), f"sectors/order differ: {list(a.blocks)} vs {list(b.blocks)}")
        if orc.is_fermionic(a):
            S.require(name + ":phases", sorted(a.phases.items(), key=repr) == sorted(b.phases.items(), key=repr), "pending signs differ")
            S.require(name + ":labels", orc.labels_of(a) == orc.labels_of(b), "labels differ")
        ca, cb = orc.coords(a, apply_phases=False), orc.coords(b, apply_phases=False)
        for k in ca:
            S.equal(f"{name}@{k}", ca[k], cb.get(k, 0))


INPLACE_FOLLOWUPS = [("phase_sync", ()), ("conj", None), ("transpose", (None,)), ("phase_global", ()), ("neg_inplace", ()), ("imul", ()),
                     ("sync_charges", ()), ("fill_missing_blocks", ())]
# (writing into a result's block memory with numpy is not a library operation: results legitimately share block
#  arrays with operands, e.g. copy(); only public in-place *operations* on the result are followed up)


def apply_inplace_followup(S, r, name, args):
    f = orc.is_fermionic(r)
    if name == "phase_sync":
        if f:
            r.phase_sync(inplace=True)
    elif name == "conj":
        r.conj(inplace=True)
    elif name == "transpose":
        r.transpose(None, inplace=True)
    elif name == "phase_global":
        if f:
            r.phase_global(inplace=True)
    elif name == "neg_inplace":
        r.apply_to_arrays(lambda b: -b)
    elif name == "imul":
        r *= S.scalar("t")
    elif name == "sync_charges":
        r.sync_charges(inplace=True)
    elif name == "fill_missing_blocks":
        r.fill_missing_blocks()
    elif name == "setitem":
        # writing into a result block in place (what optimisers / users do with shared memory)
        for b in r.blocks.values():
            if isinstance(b, np.ndarray) and b.size:
                b.reshape(-1)[0] = b.reshape(-1)[0] * 3 + 1
                break


def body_unary(S, spec):
    x = build(S, spec["a"])
    for name, args in spec["ops"]:
        before = snapshot(x)
        tag = f"{name}{args}"
        try:
            r = ops.apply_unary(S, x, name, args)
        except zt.Abort:
            raise
        except Exception as e:
            S.note(f"raised:{name}")
            r = None
        try:
            compare_snapshot(S, tag + ":operand", before, x)
        except Violation as v:
            S.structural.append((v.name, v.detail))
            x = build(S, spec["a"])
            continue
        if r is None:
            continue
        # in place on a copy: returns the very object and equals the out-of-place value
        if name in ops.INPLACE_CAPABLE:
            xc = x.copy()
            try:
                ri = ops.apply_unary(S, xc, name, args, inplace=True)
                S.require(tag + ":inplace-identity", ri is xc, "inplace=True did not return the object itself")
                same_state(S, tag + ":inplace", xc, r)
            except Violation as v:
                S.structural.append((v.name, v.detail))
            except zt.Abort:
                raise
            except Exception as e:
                S.structural.append((tag + ":inplace-raised", f"{type(e).__name__}: {e}"))
        # results may share memory with operands: in-place follow-ups on the *result* must not reach the operand
        rs = r if isinstance(r, (tuple, list)) else (r,)
        if any(isinstance(r_, sr.AbelianArray) for r_ in rs) and (spec.get("followups") or name in ("qr", "svd", "svd_truncated")):
            for fname, fargs in INPLACE_FOLLOWUPS:
                try:
                    r2 = ops.apply_unary(S, x, name, args)
                    for r3 in (r2 if isinstance(r2, (tuple, list)) else (r2,)):
                        if isinstance(r3, sr.AbelianArray):
                            apply_inplace_followup(S, r3, fname, fargs)
                except zt.Abort:
                    raise
                except Exception:
                    S.note(f"raised:{name}+{fname}")
                try:
                    compare_snapshot(S, f"{tag}+{fname}:operand", before, x)
                except Violation as v:
                    S.structural.append((v.name, v.detail))
                    x = build(S, spec["a"])
                    before = snapshot(x)


def body_binary(S, spec):
    a, b = build(S, spec["a"]), build(S, spec["b"])
    for name, args in spec["ops"]:
        ba, bb = snapshot(a), snapshot(b)
        tag = f"{name}{args}"
        try:
            r = ops.apply_binary(S, a, b, name, args)
        except zt.Abort:
            raise
        except Exception:
            S.note(f"raised:{name}")
            r = None
        try:
            compare_snapshot(S, tag + ":left", ba, a)
            compare_snapshot(S, tag + ":right", bb, b)
        except Violation as v:
            S.structural.append((v.name, v.detail))
            a, b = build(S, spec["a"]), build(S, spec["b"])
            continue
        res = r if isinstance(r, (tuple, list)) else (r,)
        for r_ in res:
            if isinstance(r_, sr.AbelianArray):
                for fname, fargs in INPLACE_FOLLOWUPS:
                    try:
                        r2 = ops.apply_binary(S, a, b, name, args)
                        for r3 in (r2 if isinstance(r2, (tuple, list)) else (r2,)):
                            if isinstance(r3, sr.AbelianArray):
                                apply_inplace_followup(S, r3, fname, fargs)
                    except zt.Abort:
                        raise
                    except Exception:
                        S.note(f"raised:{name}+{fname}")
                    try:
                        compare_snapshot(S, f"{tag}+{fname}:left", ba, a)
                        compare_snapshot(S, f"{tag}+{fname}:right", bb, b)
                    except Violation as v:
                        S.structural.append((v.name, v.detail))
                        a, b = build(S, spec["a"]), build(S, spec["b"])
                        ba, bb = snapshot(a), snapshot(b)
                break


def body_muldiag(S, spec):
    x = build(S, spec["a"])
    ax = spec["axis"]
    cm = dict(spec["a"]["indices"][ax][0])
    v = build_vector(S, "v", [(c, cm[c]) for c in spec["vcharges"]])
    bx, bv = snapshot(x), snapshot(v)
    r = x.multiply_diagonal(v, ax)
    compare_snapshot(S, "muldiag:operand", bx, x)
    compare_snapshot(S, "muldiag:vector", bv, v)
    xc = x.copy()
    ri = xc.multiply_diagonal(v, ax, inplace=True)
    S.require("muldiag:inplace-identity", ri is xc, "inplace did not return self")
    same_state(S, "muldiag:inplace", xc, r)
    compare_snapshot(S, "muldiag:vector2", bv, v)


BODIES = {"body_unary": body_unary, "body_binary": body_binary, "body_muldiag": body_muldiag}


def _run(case):
    return run_case(BODIES[case["body"]], case["spec"], complex_=False, validate=False,
                    want_sample=case.get("sample", False), seed=case.get("seed", 0), max_paths=120, wall_limit=90)


CLASSES = [("Z2", False, False), ("U1", False, False), ("U1U1", False, False), ("Z4", True, False),
           ("Z2", False, True), ("U1", False, True), ("Z2Z2", False, True), ("U1U1", True, True)]


def build_family(tier, seed):
    rng = random.Random(seed)
    thorough = tier == "thorough"
    groups = {}
    for sym, generic, fermionic in CLASSES:
        if not thorough and sym == "U1U1":
            continue  # (quick tier: Z2, U1, Z4-generic abelian; Z2, U1, Z2Z2 fermionic)
        two, one = fam.std_tables(sym, thorough, n_two=2, n_one=1)
        nm = f"{sym}{'-generic' if generic else ''}{'-fermionic' if fermionic else ''}"
        cases = []
        md = []
        for nd in (1, 2, 3):
            tb = (two + one) if nd <= 2 else two[:2] + one[:1]
            arrs = list(fam.array_specs(sym, nd, tb, fermionic=fermionic, generic=generic, sparsity_threshold=3, phases=fermionic, rng=rng, labels=(6,)))
            arrs, _ = fam.thin(arrs, {1: None, 2: 250, 3: 200}[nd] if not thorough else {1: None, 2: 2500, 3: 2000}[nd], seed + nd)
            for k, a in enumerate(arrs):
                ol = ops.gen_unary(a, "quick" if not thorough else "thorough")
                heavy = [o for o in ol if o[0] in ("qr", "svd", "svd_truncated")]  # these fork on data: one case each
                ol = [o for o in ol if o not in heavy]
                for j in range(0, len(ol), 12):
                    cases.append(dict(a=a, ops=tuple(ol[j:j + 12]), followups=(k % 3 == 0)))
                if k % 3 == 0:
                    for o in heavy:
                        cases.append(dict(a=a, ops=(o,), followups=True))
                for ax in range(nd):
                    chs = [c for c, _ in a["indices"][ax][0]]
                    for vs in (tuple(chs), tuple(chs[:1]), tuple(chs[1:])):
                        if vs:
                            md.append(dict(a=a, axis=ax, vcharges=vs))
        cases, _ = fam.thin(cases, 1800 if not thorough else 50000, seed)
        groups[f"unary/{nm}"] = ([dict(body="body_unary", spec=c, sample=(i % 2000 == 0), seed=seed + i) for i, c in enumerate(cases)], False)
        md, _ = fam.thin(md, 800 if not thorough else 8000, seed + 5)
        groups[f"multiply_diagonal/{nm}"] = ([dict(body="body_muldiag", spec=c, seed=seed + i) for i, c in enumerate(md)], False)
        bc = []
        for na, nb in [(1, 1), (2, 1), (2, 2), (3, 2)]:
            structs = fam.pair_structs(sym, na, nb, two[:2] + one[:1], two[:1] + one[:1])
            structs, _ = fam.thin(structs, 80 if not thorough else 800, seed + na * 7 + nb)
            for st in structs:
                for A, B, axes, ex2 in fam.expand_pair(sym, st, rng, generic=generic, fermionic=fermionic, max_pairs=3, phases=fermionic, max_phase=2, labels=(2, 9)):
                    bc.append(dict(a=A, b=B, ops=tuple(ops.gen_binary(A, B, axes))))
        for nd in (1, 2):
            for ixs in fam.index_structs(sym, nd, two[:2] + one[:1]):
                ixs = tuple(ixs)
                for q in fam.possible_charges(sym, ixs):
                    secs = fam.sectors_of(sym, ixs, q)
                    pa, _ = fam.subsets(secs, 3, rng)
                    for pra, prb in list(itertools.product(pa, pa))[:6]:
                        A = dict(sym=sym, generic=generic, fermionic=fermionic, indices=ixs, charge=q, present=tuple(pra),
                                 phases=tuple(pra[:1]) if fermionic else (), oddpos=(3 if fermionic and gs.parity(sym, q) else None), name="a")
                        B = dict(A, present=tuple(prb), phases=tuple(prb[-1:]) if fermionic else (), name="b")
                        bc.append(dict(a=A, b=B, ops=tuple(ops.gen_same_shape_binary())))
        bc, _ = fam.thin(bc, 1500 if not thorough else 25000, seed + 1)
        groups[f"binary/{nm}"] = ([dict(body="body_binary", spec=c, sample=(i % 2000 == 0), seed=seed + i) for i, c in enumerate(bc)], False)
    return groups


def classify(v):
    import re
    name = str(v.get("name", ""))
    return {"op": re.sub(r"[\(\[:@].*", "", name)}


def run(tier, seed, only=None):
    rep = Report(PID, tier, seed)
    rep.explanation = (
        "For every enumerated pre-state and public operation the operands are snapshotted before the call (block keys in order, element terms in order, "
        "shapes, deep index tables, charge, pending signs, labels) and compared after it: structure identical and every element obligation "
        "before == after discharged by z3 (a negated or rescaled shared block is satisfiable). For every operation with an inplace flag, inplace=True on a "
        "copy returns the very object and its state equals the out-of-place result. Pairs: every out-of-place op followed by in-place follow-ups on its "
        "result (phase_sync, conj, transpose, phase_global, apply_to_arrays negation, *=, sync_charges, fill_missing_blocks), then the "
        "original operand is compared again.")
    rep.rule = "case = (pre-state, batch of op instances[, follow-ups]); non-trivial = produced obligations"
    rep.functions = ["every operation in vlib/ops.py", "copy/copy_with of AbelianArray, FermionicArray, BlockBase", "_binary_blockwise_op", "multiply_diagonal", "tensordot_fermionic"]
    rep.bounds = {"rank": "<=3", "charges_per_index": "<=2", "block_sizes": "1..2", "sequences": "length 1, and (out-of-place op ; in-place follow-up on the result)"}
    rep.outside = ["eigh/solve (covered in C11's family)", "longer sequences"]
    groups = build_family(tier, seed)
    run_groups(rep, groups, _run, only)
    return rep.finish(classify)
