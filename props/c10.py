"""C10 — conjugation gives the bra: norms are positive and adjoint laws hold (engine B, complex)."""
import itertools
import random

import numpy as np

from vlib import env  # noqa
import symmray as sr

from vlib import families as fam
from vlib import graded
from vlib import oracle as orc
from vlib import sym as gs
from vlib import zt
from vlib.build import build
from vlib.driver import Report
from vlib.par import pmap, run_groups
from vlib.session import run_case, Violation
from props.c04 import SHAPES, gen_routes, run_route, oracle_network, make_networks

PID = "C10"


def _cj(v):
    return v.conjugate() if hasattr(v, "conjugate") else v


def norm2_of(coords):
    tot = 0
    for v in coords.values():
        tot = tot + v * _cj(v)
    return tot


def same_value(S, name, a, b):
    """two fermionic arrays equal as tensors: indices, charge, labels, every coordinate with signs"""
    S.require(name + ":indices", [orc.index_sig(i) for i in a.indices] == [orc.index_sig(i) for i in b.indices], "indices differ")
    S.require(name + ":charge", a.charge == b.charge, f"{a.charge!r} vs {b.charge!r}")
    S.require(name + ":labels", orc.labels_of(a) == orc.labels_of(b), f"{orc.labels_of(a)} vs {orc.labels_of(b)}")
    ca, cb = orc.coords(a), orc.coords(b)
    for k in set(ca) | set(cb):
        S.equal(f"{name}@{k}", ca.get(k, 0), cb.get(k, 0))


def body_single(S, spec):
    x = build(S, spec["a"])
    nd = x.ndim
    n2 = norm2_of(orc.coords(x))
    all_ket = all(not ix.dual for ix in x.indices)
    fwd = tuple(range(nd))
    rev = tuple(range(nd - 1, -1, -1))
    for d in (False, True):
        xc = x.conj(phase_dual=d)
        xd = x.dagger(phase_dual=d)
        probs = orc.audit(xc) + orc.audit(xd)
        S.require(f"valid[{d}]", not probs, "; ".join(probs[:2]))
        if all_ket or d:
            S.equal(f"conj.x[{d}]", sr.tensordot(xc, x, axes=(fwd, fwd)), n2)
            S.equal(f"x.conj[{d}]", sr.tensordot(x, xc, axes=(fwd, fwd)), n2)
            S.equal(f"dag.x[{d}]", sr.tensordot(xd, x, axes=(rev, fwd)), n2)
            S.equal(f"x.dag[{d}]", sr.tensordot(x, xd, axes=(fwd, rev)), n2)
            if nd:
                S.equal(f"conj.x-int[{d}]", sr.tensordot(xc, x, nd), n2)
            if nd == 1:
                # the matrix-product operator is the same contraction
                S.equal(f"conj@x[{d}]", xc @ x, n2)
                S.equal(f"x@conj[{d}]", x @ xc, n2)
        else:
            # the documented weaker law: the two operand orders agree
            S.equal(f"order[{d}]", sr.tensordot(xc, x, axes=(fwd, fwd)), sr.tensordot(x, xc, axes=(fwd, fwd)))
        if not d:
            # (involution is stated for the operations as such, i.e. their default options; applying the
            # dual-leg sign twice multiplies an odd-parity array by -1 and is not claimed either way)
            same_value(S, "conj.conj", xc.conj(), x)
            same_value(S, "dag.dag", xd.dagger(), x)
        same_value(S, f"dag=conj.T[{d}]", xd, xc.transpose())
    same_value(S, "H", x.H, x.dagger())
    if S.mode == "sym":
        S.canary("shifted", n2, n2 + 1)


def body_network(S, spec):
    kets = [build(S, t) for t in spec["tensors"]]
    legs = spec["legs"]
    bonds = {l for ls in legs for l in ls if sum(l in m for m in legs) == 2}
    # value of the ket network by the independent calculus
    T, lt = oracle_network([graded.from_array(t) for t in kets], legs, spec["ket_route"])
    n2 = norm2_of(T.el)
    bras = []
    for t, ls in zip(kets, legs):
        b = t.conj()
        flip = [k for k, l in enumerate(ls) if l not in bonds and t.indices[k].dual]
        if flip:
            b = b.phase_flip(*flip)
        bras.append(b)
    blegs = [[(l + "'") if l in bonds else l for l in ls] for ls in legs]
    tensors = kets + bras
    alllegs = [list(l) for l in legs] + blegs
    for r, route in enumerate(spec["routes"]):
        v, lv = run_route(tensors, alllegs, route, None, scalar_last=True)
        S.require(f"route{r}:scalar", not isinstance(v, sr.AbelianArray), "array returned for a closed network")
        S.equal(f"route{r}:norm", v, n2)
    if S.mode == "sym":
        S.canary("shifted", n2, n2 + 1)


BODIES = {"body_single": body_single, "body_network": body_network}


def _run(case):
    return run_case(BODIES[case["body"]], case["spec"], complex_=case.get("complex", True), validate=case.get("validate", False),
                    want_sample=case.get("sample", False), seed=case.get("seed", 0), wall_limit=120)


def special_routes(n):
    """bra-layer x ket-layer, and site-by-site sandwich, for a doubled network of n+n tensors"""
    out = []
    # contract all kets (indices 0..n-1) then all bras, then the two: positions shift as list shrinks
    steps = []
    cur = list(range(2 * n))
    def contract(i, j):
        a, b = cur.index(i), cur.index(j)
        a, b = min(a, b), max(a, b)
        steps.append((a, b, False, None))
        new = max(cur) + 1
        x, y = cur[a], cur[b]
        rest = [c for k, c in enumerate(cur) if k not in (a, b)]
        cur[:] = rest + [new]
        return new
    k = 0
    for i in range(1, n):
        k = contract(k, i)
    b = n
    for i in range(n + 1, 2 * n):
        b = contract(b, i)
    contract(k, b)
    out.append(tuple(steps))
    # sandwich: (A A*), then with B, then B*, ...
    steps = []
    cur = list(range(2 * n))
    acc = contract(0, n)
    for i in range(1, n):
        acc = contract(acc, i)
        acc = contract(acc, n + i)
    out.append(tuple(steps))
    return out


def fix_route(route, tensors_legs):
    """replace the axes permutation placeholder None by identity permutation of the shared legs"""
    cur = [list(l) for l in tensors_legs]
    out = []
    for (i, j, swap, p) in route:
        a, b = (cur[j], cur[i]) if swap else (cur[i], cur[j])
        shared = [l for l in a if l in b]
        pp = tuple(range(len(shared))) if p is None else p
        out.append((i, j, swap, pp))
        new = [l for l in a if l not in shared] + [l for l in b if l not in shared]
        cur = [c for k, c in enumerate(cur) if k not in (i, j)] + [new]
    return tuple(out)


def build_family(tier, seed):
    rng = random.Random(seed)
    thorough = tier == "thorough"
    groups = {}
    for sym, generic in [("Z2", False), ("U1", False), ("Z2Z2", False), ("U1U1", False), ("U1", True)]:
        two, one = fam.std_tables(sym, thorough, n_two=3, n_one=2)
        nm = f"{sym}{'-generic' if generic else ''}"
        cases = []
        for nd in (1, 2, 3) + ((4,) if thorough else ()):
            tb = (two + one) if nd <= 2 else (two[:2] + one[:1] if nd == 3 else two[:1] + one[:1])
            for k, a in enumerate(fam.array_specs(sym, nd, tb, fermionic=True, generic=generic, sparsity_threshold=3, phases=True, rng=rng)):
                lab = [("p", 2), 5, "q", (1, 0)][k % 4]
                if a["oddpos"] is not None:
                    a = dict(a, oddpos=lab)
                cases.append(dict(a=a))
        cases, ex = fam.thin(cases, 1800 if not thorough else 18000, seed)
        groups[f"single/{nm}"] = ([dict(body="body_single", spec=c, validate=(i % 40 == 0), sample=(i % 600 == 0), seed=seed + i)
                                   for i, c in enumerate(cases)], ex)
        groups[f"single-real/{nm}"] = ([dict(body="body_single", spec=c, complex=False, seed=seed + i)
                                        for i, c in enumerate(cases[::5])], False)
        if generic:
            continue
        for shape in ("pair-single", "pair-double-dangling", "chain3-open", "chain3-mid-dangling", "triangle-dangling", "chain3-closed", "pair-double"):
            n = len(SHAPES[shape])
            nets = make_networks(sym, shape, rng, (60 if n == 2 else 40) if not thorough else 400, sizes=(1,), generic=generic)
            nc = []
            for tensors, legs in nets:
                bonds = {l for ls in legs for l in ls if sum(l in m for m in legs) == 2}
                blegs = [[(l + "'") if l in bonds else l for l in ls] for ls in legs]
                alllegs = [list(l) for l in legs] + blegs
                ket_routes, _ = gen_routes(n, legs, rng, 1)
                routes = [fix_route(r, alllegs) for r in special_routes(n)]
                more, _ = gen_routes(2 * n, alllegs, rng, 6 if not thorough else 16)
                routes += list(more)
                nc.append(dict(tensors=tensors, legs=legs, ket_route=ket_routes[0], routes=tuple(routes)))
            # 3-tensor networks run on real entries (the sign structure is what is at stake; complex conjugation of values is
            # covered by the single-array and pair cases): degree-6 identities over re/im pairs cost minutes each in z3's simplifier
            groups[f"network-{shape}/{nm}"] = ([dict(body="body_network", spec=c, complex=(n == 2), validate=(i % 30 == 0), sample=(i % 60 == 0), seed=seed + i)
                                                for i, c in enumerate(nc)], False)
    return groups


def run(tier, seed, only=None):
    rep = Report(PID, tier, seed)
    rep.explanation = (
        "Bounded symbolic checking with complex entries (pairs of real z3 terms): for every enumerated fermionic array (even/odd with labels, pending signs, "
        "every dualness pattern) the contraction of the array with its conj/dagger (both operand orders, both values of the dual-leg option) must equal "
        "sum |entry|^2 as a polynomial identity whenever all legs are ket-like or the option is set; conj∘conj = id, dagger∘dagger = id and "
        "dagger = conj followed by the fermionic reversal for both option values; for 2-3 tensor networks conjugated tensor by tensor (bra-like dangling "
        "legs sign-flipped) every sampled contraction route of the doubled network must give the squared norm of the ket network as computed by the "
        "independent graded calculus.")
    rep.rule = "case = (array structure, labels, pending signs) or (network, routes); non-trivial = produced obligations"
    rep.functions = ["FermionicArray.conj/dagger/H/phase_flip/transpose", "tensordot_fermionic", "resolve_combined_oddpos", "oddpos_dag", "calc_phase_permutation(perm=None)"]
    rep.bounds = {"rank": "<=3 (4 thorough)", "networks": "2-3 ket tensors (4-6 in the doubled network), block size 1", "routes": "bra.ket, sandwich, +6 (16) seeded"}
    rep.outside = ["larger networks; block sizes > 1 in networks", "rounding"]
    groups = build_family(tier, seed)
    run_groups(rep, groups, _run, only)
    return rep.finish()
