"""C16 — all ways of building an array agree; dense conversion round-trips (engine B)."""
import itertools
import random
import warnings

import numpy as np

from vlib import env  # noqa
import symmray as sr
import symmray.utils as sru
from symmray.abelian_core import BlockIndex

from vlib import families as fam
from vlib import oracle as orc
from vlib import sym as gs
from vlib.build import array_class, block_shape, build, make_indices
from vlib.driver import Report
from vlib.par import pmap, run_groups
from vlib.session import run_case, Violation
from vlib import zt

PID = "C16"


def same_array(S, name, got, ref, restrict=False):
    """got must equal ref: charge, index tables (optionally restricted to occurring charges),
    and every coordinate (absent = zero), both directions"""
    S.require(name + ":type", type(got) is type(ref), f"{type(got).__name__} vs {type(ref).__name__}")
    probs = orc.audit(got)
    S.require(name + ":valid", not probs, "; ".join(probs[:2]))
    S.require(name + ":charge", got.charge == ref.charge, f"charge {got.charge!r} != {ref.charge!r}")
    S.require(name + ":rank", got.ndim == ref.ndim, f"rank {got.ndim} != {ref.ndim}")
    S.require(name + ":symmetry", orc.symname(got) == orc.symname(ref), "symmetry differs")
    for i, (a, b) in enumerate(zip(got.indices, ref.indices)):
        S.require(name + ":dual", a.dual == b.dual, f"axis {i} direction {a.dual} != {b.dual}")
        cma, cmb = dict(a.chargemap), dict(b.chargemap)
        if restrict:
            occ = {s[i] for s in ref.blocks}
            cmb = {c: d for c, d in cmb.items() if c in occ}
        S.require(name + ":chargemap", cma == cmb, f"axis {i} charge table {cma} != {cmb}")
    cg, cr = orc.coords(got), orc.coords(ref)
    for k in set(cg) | set(cr):
        S.equal(f"{name}@{k}", cg.get(k, 0), cr.get(k, 0))
    if orc.is_fermionic(ref):
        S.require(name + ":labels", orc.labels_of(got) == orc.labels_of(ref), f"labels {orc.labels_of(got)} != {orc.labels_of(ref)}")


def body_construct(S, spec):
    a = spec["a"]
    sym = a["sym"]
    cls, generic = array_class(a)
    x0 = build(S, a)
    duals = tuple(d for _, d in a["indices"])
    fkw = {}
    if a.get("fermionic"):
        fkw["oddpos"] = a.get("oddpos")
    blocks = dict(x0.blocks)
    if a.get("fermionic") and a.get("phases"):
        # the tensor described: signs applied
        blocks = {s: (-b if s in a["phases"] else b) for s, b in blocks.items()}
    xs = x0.phase_sync() if a.get("fermionic") else x0
    ident = gs.identity(sym)
    # symmetry argument: required for generic classes, optional (and accepted) for static ones
    sym_opts = [dict(symmetry=sym)] if generic else [dict(), dict(symmetry=sym)]
    ch_opts = [dict(charge=a["charge"])] + ([dict()] if a["charge"] == ident else [])
    indices = make_indices(a)
    for so in sym_opts:
        for co in ch_opts:
            tag = f"[{'sym' if so else '-'},{'q' if co else '-'}]"
            if blocks:
                x1 = cls.from_blocks(blocks, duals, **co, **so, **fkw)
                same_array(S, "from_blocks" + tag, x1, xs, restrict=True)
            x4 = cls(indices=indices, blocks=blocks, **co, **so, **fkw)
            same_array(S, "direct" + tag, x4, xs)
            # from_fill_fn: exactly the valid sectors, each with the shape its indices assign
            shapes = []
            if generic:
                # history: the same index tables, directions and total charge under the other symmetries with the same kind of charge label
                # (what the class computes for one symmetry must not be served to another)
                for other in ({"Z2": ("U1", "Z4"), "U1": ("Z2", "Z4"), "Z4": ("Z2", "U1"), "Z2Z2": ("U1U1",), "U1U1": ("Z2Z2",)}[sym]):
                    try:
                        cls.from_fill_fn(lambda shp: np.zeros(shp), make_indices(a), **co, **dict(so, symmetry=other), **fkw)
                    except Exception:
                        pass
            x2 = cls.from_fill_fn(lambda shp: (shapes.append(tuple(shp)) or np.zeros(shp)), indices, **co, **so, **fkw)
            want = set(fam.sectors_of(sym, a["indices"], a["charge"]))
            S.require("from_fill_fn" + tag + ":sectors", set(x2.blocks) == want and len(x2.blocks) == len(want),
                      f"sectors {sorted(x2.blocks)} != {sorted(want)}")
            S.require("from_fill_fn" + tag + ":shapes", all(tuple(np.shape(b)) == block_shape(a, s) for s, b in x2.blocks.items()), "block shapes")
            S.require("from_fill_fn" + tag + ":charge", x2.charge == a["charge"], f"charge {x2.charge!r}")
            S.require("from_fill_fn" + tag + ":indices", [orc.index_sig(i) for i in x2.indices] == [orc.index_sig(i) for i in indices], "indices")
            # dense with the matching (sorted) labels
            D, L = orc.dense_of(x0, dtype=S.dtype())
            labels = [[c for c, st, sz in lay for _ in range(sz)] for lay in L]
            x3 = cls.from_dense(D, labels, duals, invalid_sectors="ignore", **co, **so, **fkw)
            same_array(S, "from_dense" + tag, x3, xs)
    # (the helper has no way to pass a label: odd fermionic arrays cannot be built through it)
    if not generic and sym != "Z4" and not (a.get("fermionic") and a.get("oddpos") is not None):
        x5 = sru.from_dense(D, sym, labels, duals=duals, fermionic=bool(a.get("fermionic")), charge=a["charge"])
        same_array(S, "utils.from_dense", x5, xs)
    # to_dense agrees with the oracle's placement, and back
    Dl = x0.to_dense()
    S.require("to_dense:shape", tuple(np.shape(Dl)) == tuple(D.shape), f"{np.shape(Dl)} vs {D.shape}")
    S.equal_arrays("to_dense", Dl, D)
    x6 = cls.from_dense(Dl, labels, duals, charge=a["charge"], invalid_sectors="ignore", **sym_opts[-1], **fkw)
    same_array(S, "roundtrip", x6, xs)
    if S.mode == "sym" and D.size:
        S.canary("shifted", D.reshape(-1)[0], D.reshape(-1)[0] + 1)


def body_projection(S, spec):
    """arbitrary dense array, arbitrary labels: to_dense(from_dense(D)) = projection, reordered by charge"""
    sym, generic, fermionic = spec["sym"], spec["generic"], spec["fermionic"]
    labels, duals, q = spec["labels"], spec["duals"], spec["charge"]
    cls, generic = array_class(dict(sym=sym, generic=generic, fermionic=fermionic))
    shape = tuple(len(l) for l in labels)
    D = S.fill("D", shape)
    kw = dict(symmetry=sym) if generic else {}
    mode = spec.get("invalid", "ignore")
    # expected
    order = []
    for lab in labels:
        cs = sorted(set(lab))
        order.append([i for c in cs for i, l in enumerate(lab) if l == c])
    exp = np.empty(shape, dtype=S.dtype())
    invalid_entries = []
    for pos in np.ndindex(*shape):
        src = tuple(order[ax][p] for ax, p in enumerate(pos))
        sec = tuple(labels[ax][i] for ax, i in enumerate(src))
        if gs.sector_charge(sym, sec, duals) == q:
            exp[pos] = D[src]
        else:
            exp[pos] = 0
            invalid_entries.append(D[src])
    raised = False
    try:
        with warnings.catch_warnings():
            warnings.simplefilter("ignore")
            maps = [list(l) for l in labels]
            if spec.get("dict_maps"):
                # the documented type: a dict position -> charge, here inserted in a scrambled order
                maps = []
                for ax, l in enumerate(labels):
                    order_ = list(range(len(l)))
                    order_ = order_[::-1] if ax % 2 == 0 else order_[1::2] + order_[0::2]
                    maps.append({i: l[i] for i in order_})
            x = cls.from_dense(D, maps, duals, charge=q, invalid_sectors=mode, **kw)
    except ValueError as e:
        if mode != "raise" or "non-zero" not in str(e):
            raise
        raised = True
    if mode == "raise":
        if S.mode == "sym":
            import z3
            nz = z3.Or(*[z3.Or(zt.parts(e)[0] > zt._num(1e-12), zt.parts(e)[0] < -zt._num(1e-12)) for e in invalid_entries]) if invalid_entries else z3.BoolVal(False)
            S.holds("raise-iff-nonzero-invalid", nz if raised else z3.Not(nz))
        else:
            S.holds("raise-iff-nonzero-invalid", raised == any(abs(e) > 1e-12 for e in invalid_entries))
        if raised:
            return
    probs = orc.audit(x)
    S.require("valid", not probs, "; ".join(probs[:2]))
    S.require("charge", x.charge == q, f"charge {x.charge!r}")
    for ax, lab in enumerate(labels):
        want = {c: list(lab).count(c) for c in sorted(set(lab))}
        S.require("chargemap", dict(x.indices[ax].chargemap) == want and x.indices[ax].dual == duals[ax], f"axis {ax}")
    if not x.blocks:
        return
    back = x.to_dense()
    S.require("shape", tuple(np.shape(back)) == shape, f"{np.shape(back)}")
    S.equal_arrays("projection", back, exp)
    if S.mode == "sym":
        S.canary("shifted", exp.reshape(-1)[0], exp.reshape(-1)[0] + 1)


BODIES = {"body_construct": body_construct, "body_projection": body_projection}


def _run(case):
    return run_case(BODIES[case["body"]], case["spec"], complex_=case.get("complex", False), validate=case.get("validate", False),
                    want_sample=case.get("sample", False), seed=case.get("seed", 0), max_paths=case.get("max_paths", 600))


def labelings(universe, length):
    return list(itertools.product(universe, repeat=length))


def build_family(tier, seed):
    rng = random.Random(seed)
    thorough = tier == "thorough"
    groups = {}
    for sym, generic, fermionic in [("Z2", False, False), ("U1", False, False), ("Z2Z2", False, False), ("U1U1", False, False),
                                    ("Z4", True, False), ("U1", True, False), ("Z2", False, True), ("U1", False, True),
                                    ("U1U1", False, True), ("Z2Z2", True, True)]:
        tabs = fam.index_tables(sym, 2, ("ones", "graded"))
        two = [t for t in tabs if len(t) == 2 and t[0][1] != t[1][1]]
        one = [t for t in tabs if len(t) == 1]
        if sym != "Z2":
            two, one = two[: (3 if not thorough else 6)], one[:2]
        cases = []
        for nd in (0, 1, 2, 3):
            tb = two + one if nd < 3 else two[:2] + one[:1]
            if nd == 0:
                # rank-0 arrays of every small total charge (only the identity charge has a sector)
                for q in fam.UNIVERSE[sym][:3]:
                    for pres in (((),), ()):
                        if pres and q != gs.identity(sym):
                            continue
                        cases.append(dict(a=dict(sym=sym, generic=generic, fermionic=fermionic, indices=(), charge=q, present=pres, phases=(),
                                                 oddpos=(("site", 3) if fermionic and gs.parity(sym, q) else None), name="a", exhaustive=True)))
                continue
            cases += [dict(a=a) for a in fam.array_specs(sym, nd, tb, fermionic=fermionic, generic=generic, sparsity_threshold=3,
                                                         phases=fermionic, rng=rng, labels=(("site", 3),))]
        cases, ex = fam.thin(cases, 1200 if not thorough else 12000, seed)
        nm = f"{sym}{'-generic' if generic else ''}{'-fermionic' if fermionic else ''}"
        groups[f"construct/{nm}"] = ([dict(body="body_construct", spec=c, validate=(i % 40 == 0), sample=(i % 500 == 0), seed=seed + i)
                                      for i, c in enumerate(cases)], ex)
        if sym in ("Z2", "U1") and not generic:
            groups[f"construct-complex/{nm}"] = ([dict(body="body_construct", spec=c, complex=True, validate=(i % 40 == 0), seed=seed + i)
                                                  for i, c in enumerate(cases[::6])], False)
        # projection of arbitrary dense arrays under arbitrary labelings
        uni = fam.UNIVERSE[sym][:3]
        pj = []
        shapes = [(1,), (2,), (3,), (4,), (5,), (6,), (2, 2), (3, 2), (2, 3), (3, 3), (5, 1), (5, 2), (2, 2, 2)]
        if thorough:
            shapes += [(4, 3), (4, 4), (6, 2), (3, 2, 2), (7,)]
        for shp in shapes:
            labs_per_axis = [labelings(uni if L <= 4 else uni[:2], L) for L in shp]
            allabs = list(itertools.product(*labs_per_axis))
            allabs, _ = fam.thin(allabs, 150 if not thorough else 1500, seed + len(shp) + sum(shp))
            for labs in allabs:
                for duals in itertools.product((False, True), repeat=len(shp)):
                    qs = sorted({gs.sector_charge(sym, sec, duals) for sec in itertools.product(*[sorted(set(l)) for l in labs])})
                    # one conserving total charge and (if any) one value with no valid sector at all
                    qsel = qs[:: max(1, len(qs) // 2)][:2]
                    for q in qsel:
                        pj.append(dict(sym=sym, generic=generic, fermionic=fermionic and gs.parity(sym, q) == 0 and fermionic,
                                       labels=labs, duals=duals, charge=q))
        pj = [p for p in pj if not (fermionic and gs.parity(sym, p["charge"]))]
        for p in pj:
            p["fermionic"] = fermionic
        pj, ex2 = fam.thin(pj, 2500 if not thorough else 25000, seed + 3)
        pj = [dict(p_, dict_maps=(k_ % 3 == 0)) for k_, p_ in enumerate(pj)]
        groups[f"projection/{nm}"] = ([dict(body="body_projection", spec=c, validate=(i % 40 == 0), sample=(i % 900 == 0), seed=seed + i)
                                       for i, c in enumerate(pj)], ex2)
        small = [dict(p, invalid="raise") for p in pj if int(np.prod([len(l) for l in p["labels"]])) <= 4]
        small, _ = fam.thin(small, 300 if not thorough else 3000, seed + 4)
        groups[f"projection-raise/{nm}"] = ([dict(body="body_projection", spec=c, seed=seed + i) for i, c in enumerate(small)], False)
    return groups


def run(tier, seed, only=None):
    rep = Report(PID, tier, seed)
    rep.explanation = (
        "Bounded symbolic checking: for every enumerated structure the constructors (direct, from_blocks, from_fill_fn, from_dense, "
        "utils.from_dense) are run on z3-term data with every documented combination of omitted optional arguments and must give arrays equal in "
        "charge, index tables and every coordinate; to_dense must equal the oracle's placement and round-trip; for an arbitrary dense array "
        "(every entry a distinct variable) and arbitrary unsorted/interleaved axis labelings, to_dense(from_dense(D)) must equal the projection onto "
        "charge-conserving sectors reordered by charge; invalid_sectors='raise' is explored on every feasible sign pattern of the data.")
    rep.rule = "case = (class, structure incl. sparsity, omitted-argument combination) or (class, dense shape, axis labelings, duals, charge); non-trivial = produced obligations"
    rep.functions = ["AbelianArray.__init__/from_blocks/from_fill_fn/from_dense/to_dense (and the fermionic subclasses)", "get_class_symmetry of all 10 classes",
                     "symmray.utils.from_dense", "gen_valid_sectors"]
    rep.bounds = {"rank": "<=3", "charges_per_index": "<=2 (construct), <=3 labels per axis (projection)", "dense axis length": "<=6 (1-d), <=5 (2-d), 2 (3-d)",
                  "classes": "Z2,U1,Z2Z2,U1U1 static; Z4,U1 generic; Z2,U1,U1U1 static fermionic; Z2Z2 generic fermionic"}
    rep.outside = ["random() (draws from numpy's generator: not symbolic)", "longer axes / higher ranks", "from_blocks index tables are compared restricted to occurring charges (it cannot know others)"]
    groups = build_family(tier, seed)
    run_groups(rep, groups, _run, only)
    return rep.finish()
