"""C09 — lazily tracked fermionic signs are unobservable: relational inductive step (engine B)."""
import itertools
import random

import numpy as np

from vlib import env  # noqa
import symmray as sr

from vlib import families as fam
from vlib import ops
from vlib import oracle as orc
from vlib import sym as gs
from vlib import zt
from vlib.build import build
from vlib.driver import Report
from vlib.par import pmap, run_groups
from vlib.session import run_case, Violation

PID = "C09"


def synced_twin(S, spec):
    """the same tensor with the pending signs multiplied in by hand (independent of phase_sync)"""
    y = build(S, dict(spec, phases=()))
    for s in spec.get("phases", ()):
        if s in y.blocks:
            y.blocks[s] = -y.blocks[s]
    return y


def same_result(S, name, r1, r2):
    """results of an operation on the lazy array and on its synchronised twin must be equal in value"""
    if isinstance(r1, sr.AbelianArray) or isinstance(r2, sr.AbelianArray):
        S.require(name + ":kind", isinstance(r1, sr.AbelianArray) and isinstance(r2, sr.AbelianArray), f"{type(r1).__name__} vs {type(r2).__name__}")
        S.require(name + ":indices", [orc.index_sig_unordered(i) for i in r1.indices] == [orc.index_sig_unordered(i) for i in r2.indices], "indices differ")
        S.require(name + ":charge", r1.charge == r2.charge, f"charge {r1.charge!r} vs {r2.charge!r}")
        S.require(name + ":labels", orc.labels_of(r1) == orc.labels_of(r2), f"labels {orc.labels_of(r1)} vs {orc.labels_of(r2)}")
        c1, c2 = orc.coords(r1), orc.coords(r2)
        for k in set(c1) | set(c2):
            S.equal(f"{name}@{k}", c1.get(k, 0), c2.get(k, 0))
    elif isinstance(r1, sr.BlockVector) or isinstance(r2, sr.BlockVector):
        S.require(name + ":kind", isinstance(r1, sr.BlockVector) and isinstance(r2, sr.BlockVector), "kinds differ")
        S.require(name + ":keys", set(r1.blocks) == set(r2.blocks), "vector blocks differ")
        for k in r1.blocks:
            S.equal_arrays(f"{name}@{k}", r1.blocks[k], r2.blocks[k])
    elif isinstance(r1, (tuple, list)):
        S.require(name + ":len", len(r1) == len(r2), "tuple lengths differ")
        for i, (a, b) in enumerate(zip(r1, r2)):
            same_result(S, f"{name}[{i}]", a, b)
    elif isinstance(r1, np.ndarray) and r1.ndim > 0:
        S.equal_arrays(name, r1, r2)
    elif isinstance(r1, (bool, np.bool_)) and isinstance(r2, (bool, np.bool_)):
        S.require(name + ":bool", bool(r1) == bool(r2), f"{r1} vs {r2}")
    else:
        S.equal(name, r1, r2)


def call(fn):
    try:
        return "val", fn()
    except zt.Abort:
        raise
    except Exception as e:
        return "raise", f"{type(e).__name__}: {e}"


def body_unary(S, spec):
    x = build(S, spec["a"])
    y = synced_twin(S, spec["a"])
    for name, args in spec["ops"]:
        k1, r1 = call(lambda: ops.apply_unary(S, x, name, args))
        k2, r2 = call(lambda: ops.apply_unary(S, y, name, args))
        tag = f"{name}{args}"
        if k1 != k2:
            S.structural.append((tag + ":raises-differ", f"lazy: {k1} {str(r1)[:80]} | synced: {k2} {str(r2)[:80]}"))
            continue
        if k1 == "raise":
            S.note(f"raised:{name}")
            continue
        try:
            same_result(S, tag, r1, r2)
        except Violation as v:
            S.structural.append((v.name, v.detail))
    # synchronising: idempotent, value unchanged, table empty, applied exactly once
    z = x.phase_sync()
    try:
        S.require("sync:table-empty", not z.phases, f"pending signs after sync: {dict(z.phases)}")
        same_result(S, "sync:value", z, y)
        cz, cy = orc.coords(z, apply_phases=False), orc.coords(y, apply_phases=False)
        for k in set(cz) | set(cy):
            S.equal(f"sync:blocks@{k}", cz.get(k, 0), cy.get(k, 0))
        zz = z.phase_sync()
        czz = orc.coords(zz, apply_phases=False)
        for k in set(cz) | set(czz):
            S.equal(f"sync.sync@{k}", czz.get(k, 0), cz.get(k, 0))
        S.require("sync.sync:table-empty", not zz.phases, "table not empty")
        D1, _ = orc.dense_of(x, dtype=S.dtype())
        S.equal_arrays("sync:dense", z.to_dense(), D1)
    except Violation as v:
        S.structural.append((v.name, v.detail))
    if S.mode == "sym":
        cx = orc.coords(x)
        if cx:
            k0 = next(iter(cx))
            S.canary("shifted", cx[k0], cx[k0] + 1)


def body_binary(S, spec):
    a, b = build(S, spec["a"]), build(S, spec["b"])
    a2, b2 = synced_twin(S, spec["a"]), synced_twin(S, spec["b"])
    for name, args in spec["ops"]:
        k0, r0 = call(lambda: ops.apply_binary(S, a2, b2, name, args))
        for tag, (p, q) in (("lazy-lazy", (a, b)), ("lazy-synced", (a, b2)), ("synced-lazy", (a2, b))):
            k1, r1 = call(lambda: ops.apply_binary(S, p, q, name, args))
            nm = f"{name}{args}[{tag}]"
            if k1 != k0:
                S.structural.append((nm + ":raises-differ", f"{k1} {str(r1)[:80]} | synced-synced: {k0} {str(r0)[:80]}"))
                continue
            if k1 == "raise":
                S.note(f"raised:{name}")
                continue
            try:
                same_result(S, nm, r1, r0)
            except Violation as v:
                S.structural.append((v.name, v.detail))


def body_solve(S, spec):
    """solve on lazy operands == solve on their synchronised twins (LAPACK contract stub, memoised by content: on the unchanged code the
    backend receives identical blocks in all four combinations, so the solutions are the same terms)"""
    from vlib import stubs
    stubs.install()
    a, b = build(S, spec["a"]), build(S, spec["b"])
    a2, b2 = synced_twin(S, spec["a"]), synced_twin(S, spec["b"])
    if S.mode == "sym":
        import numpy as _np
        for s_, B in a2.blocks.items():
            B = _np.asarray(B, dtype=object)
            det = B[0, 0] if B.shape == (1, 1) else B[0, 0] * B[1, 1] - B[0, 1] * B[1, 0]
            zt.ctl().assume(zt.parts(det)[0] != 0, "input: blocks of A are invertible (solve)")
    k0, r0 = call(lambda: sr.linalg.solve(a2, b2))
    for tag, (p, q) in (("lazy-lazy", (a, b)), ("lazy-synced", (a, b2)), ("synced-lazy", (a2, b))):
        k1, r1 = call(lambda: sr.linalg.solve(p, q))
        nm = f"solve[{tag}]"
        if k1 != k0:
            S.structural.append((nm + ":raises-differ", f"{k1} {str(r1)[:80]} | synced-synced: {k0} {str(r0)[:80]}"))
            continue
        if k1 == "raise":
            S.note("raised:solve")
            continue
        try:
            same_result(S, nm, r1, r0)
        except Violation as v:
            S.structural.append((v.name, v.detail))


BODIES = {"body_unary": body_unary, "body_binary": body_binary, "body_solve": body_solve}


def _run(case):
    return run_case(BODIES[case["body"]], case["spec"], complex_=case.get("complex", False), validate=False,
                    want_sample=case.get("sample", False), seed=case.get("seed", 0), max_paths=300, wall_limit=60)


def build_family(tier, seed):
    rng = random.Random(seed)
    thorough = tier == "thorough"
    groups = {}
    for sym, generic in [("Z2", False), ("U1", False), ("Z2Z2", False), ("U1U1", False), ("Z2", True)]:
        two, one = fam.std_tables(sym, thorough, n_two=2, n_one=1)
        nm = f"{sym}{'-generic' if generic else ''}"
        cases = []
        for nd in (1, 2, 3):
            tb = (two + one) if nd <= 2 else two[:2] + one[:1]
            arrs = [a for a in fam.array_specs(sym, nd, tb, fermionic=True, generic=generic, sparsity_threshold=3, phases=True, rng=rng, labels=(4,))
                    if a["phases"]]
            arrs, _ = fam.thin(arrs, {1: None, 2: 500, 3: 400}[nd] if not thorough else {1: None, 2: 5000, 3: 4000}[nd], seed + nd)
            for a in arrs:
                ol = [o for o in ops.gen_unary(a, "quick" if not thorough else "thorough") if o[0] not in ("qr", "svd", "svd_truncated")]
                if nd == 2:
                    # decompositions: the factors of x and of its twin differ by a gauge, their product does not
                    ol += [("qr_product", ()), ("svd_product", ())]
                nent = sum(int(np.prod([dict(cm)[c] for (cm, _), c in zip(a["indices"], s_)])) for s_ in a["present"])
                ol += [("item", ()), ("get_sparsity", ())]
                if nent <= 3:
                    # data-dependent reductions fork on the ordering / signs of the entries
                    ol += [("max", ()), ("min", ()), ("abs", ())]
                for k in range(0, len(ol), 30):
                    cases.append(dict(a=a, ops=tuple(ol[k:k + 30])))
        cases, _ = fam.thin(cases, 6000 if not thorough else 60000, seed)
        groups[f"unary/{nm}"] = ([dict(body="body_unary", spec=c, sample=(i % 2500 == 0), seed=seed + i) for i, c in enumerate(cases)], False)
        bc = []
        for na, nb in [(1, 1), (2, 1), (1, 2), (2, 2), (3, 2)]:
            structs = fam.pair_structs(sym, na, nb, two[:2] + one[:1], two[:1] + one[:1])
            structs, _ = fam.thin(structs, 150 if not thorough else 1500, seed + na * 7 + nb)
            for st in structs:
                for A, B, axes, ex2 in fam.expand_pair(sym, st, rng, generic=generic, fermionic=True, max_pairs=3, phases=True, max_phase=2, labels=(2, 9)):
                    if A["phases"] or B["phases"]:
                        bc.append(dict(a=A, b=B, ops=tuple(ops.gen_binary(A, B, axes))))
        for nd in (1, 2):
            for ixs in fam.index_structs(sym, nd, two[:2] + one[:1]):
                ixs = tuple(ixs)
                for q in fam.possible_charges(sym, ixs):
                    secs = fam.sectors_of(sym, ixs, q)
                    pa, _ = fam.subsets(secs, 3, rng)
                    for pra, prb in list(itertools.product(pa, pa))[:9]:
                        A = dict(sym=sym, generic=generic, fermionic=True, indices=ixs, charge=q, present=tuple(pra), phases=tuple(pra[:1]),
                                 oddpos=(3 if gs.parity(sym, q) else None), name="a")
                        B = dict(A, present=tuple(prb), phases=tuple(prb[-1:]), name="b")
                        bc.append(dict(a=A, b=B, ops=tuple(ops.gen_same_shape_binary())))
        bc, _ = fam.thin(bc, 4000 if not thorough else 40000, seed + 1)
        groups[f"binary/{nm}"] = ([dict(body="body_binary", spec=c, sample=(i % 2500 == 0), seed=seed + i) for i, c in enumerate(bc)], False)
        # solve with pending signs on the matrix and / or the right-hand side, every total charge of the matrix (even and odd, zero and non-zero)
        uni = fam.UNIVERSE[sym]
        sv = []
        for cmv in [((uni[0], 1), (uni[1], 1)), ((uni[0], 2), (uni[1], 2)), ((uni[1], 2),)]:
            for d0, d1 in itertools.product((False, True), repeat=2):
                ixs = ((cmv, d0), (cmv, d1))
                for qa in fam.possible_charges(sym, ixs):
                    secs = [s_ for s_ in fam.sectors_of(sym, ixs, qa)]
                    if not secs:
                        continue
                    bix = ((cmv, d0),)
                    rows = {s_[0] for s_ in secs}
                    for qb in fam.possible_charges(sym, bix):
                        bs = [s_ for s_ in fam.sectors_of(sym, bix, qb) if s_[0] in rows]
                        if not bs:
                            continue
                        for pa_, pb_ in ((secs[:1], bs[:1]), ((), bs[:1]), (secs[-1:], ())):
                            A = dict(sym=sym, generic=generic, fermionic=True, indices=ixs, charge=qa, present=tuple(secs), phases=tuple(pa_),
                                     oddpos=(1 if gs.parity(sym, qa) else None), name="a")
                            B = dict(sym=sym, generic=generic, fermionic=True, indices=bix, charge=qb, present=tuple(bs), phases=tuple(pb_),
                                     oddpos=(2 if gs.parity(sym, qb) else None), name="b")
                            sv.append(dict(a=A, b=B))
        sv, _ = fam.thin(sv, 200 if not thorough else 2000, seed + 4)
        groups[f"solve/{nm}"] = ([dict(body="body_solve", spec=c, seed=seed + i) for i, c in enumerate(sv)], False)
    return groups


def classify(v):
    import re
    name = str(v.get("name", ""))
    return {"op": re.sub(r"[\(\[:@].*", "", name)}


def run(tier, seed, only=None):
    rep = Report(PID, tier, seed)
    rep.explanation = (
        "Relational inductive step: for every enumerated fermionic array with *any* pending-sign table (not only reachable ones) and every public "
        "operation, the real code runs on the lazy array x and on its synchronised twin y (built by hand: blocks negated, empty table) over the same "
        "z3 variables; results must be equal in value (indices, charge, labels, every coordinate with pending signs applied; scalars; dense arrays), or "
        "both must raise. Binary operations take all lazy/synchronised combinations. phase_sync itself: table empty, value unchanged, blocks equal to the "
        "hand-synchronised ones, idempotent. z3 decides every equality for all values.")
    rep.rule = "case = (array structure with non-empty pending-sign table, batch of op instances); non-trivial = produced obligations"
    rep.functions = ["every FermionicArray operation in vlib/ops.py plus item/max/min/abs", "FermionicArray.phase_sync", "_binary_blockwise_op", "tensordot_fermionic", "__matmul__", "to_dense", "allclose"]
    rep.bounds = {"rank": "<=3", "charges_per_index": "<=2", "block_sizes": "1..2", "pending signs": "every non-empty subset of present sectors (thresholded)"}
    rep.outside = ["raw-storage accessors (blocks, get_params, set_params, apply_to_arrays, phases): their documented meaning is the stored representation",
                   "linalg on lazy inputs is covered in C11's family (pending signs) ", "larger structures"]
    groups = build_family(tier, seed)
    run_groups(rep, groups, _run, only)
    return rep.finish(classify)
