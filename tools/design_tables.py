#!/usr/bin/env python3
"""Regenerate the seed table in DESIGN.md and seeded/<id>/meta.json from seeded/matrix.json."""
import json
import os
import re

V = "/verif"
M = json.load(open(f"{V}/seeded/matrix.json"))
rows = ["| seeded change | breaks | what it needs to manifest | caught by (exit 1 + VIOLATION) | not caught by |", "|---|---|---|---|---|"]
for seed in sorted(M):
    d = f"{V}/seeded/{seed}"
    if not os.path.isdir(d):
        continue
    notes = open(f"{d}/notes.md").read() if os.path.exists(f"{d}/notes.md") else ""
    # first paragraph that talks about triggering
    need = ""
    m = re.search(r"(?is)(needed|trigger|manifest)[^\n]*\n(.{0,600})", notes)
    txt = re.sub(r"\s+", " ", notes)[:900]
    caught = sorted(p for p, r in M[seed].items() if r.get("exit") == 1)
    missed = sorted(p for p, r in M[seed].items() if r.get("exit") not in (1,))
    patch = open(f"{d}/patch.diff").read()
    files = sorted(set(re.findall(r"^\+\+\+ b/(\S+)", patch, flags=re.M)))
    meta = {
        "seed": seed,
        "breaks_property": seed.split("-")[0],
        "files_changed": files,
        "needs_to_manifest": txt,
        "confirmed": "tools/confirm_seed.sh: patch applied to a scratch worktree of /repo HEAD; full pinned test-suite passes with it; demo.py fails with it and passes without it",
        "checks_run": {p: {"exit": r.get("exit"), "summary": r.get("summary", "")[:300]} for p, r in M[seed].items()},
        "caught_by": caught,
        "how_to_replay": f"git -C /repo apply {d}/patch.diff && (cd /verif && ./check {seed.split('-')[0]} --tier quick); git -C /repo checkout -- .   # or tools/run_seed.sh {seed} {seed.split('-')[0]}",
    }
    json.dump(meta, open(f"{d}/meta.json", "w"), indent=1)
    first = re.sub(r"\s+", " ", notes.strip().split("\n\n")[0])[:160].replace("|", "/") if notes else ""
    rows.append(f"| {seed} ({', '.join(os.path.basename(f) for f in files)}) | {seed.split('-')[0]} | {first} | {', '.join(caught) or '-'} | {', '.join(missed) or '-'} |")
table = "\n".join(rows)
s = open(f"{V}/DESIGN.md").read()
s = re.sub(r"(?s)<!-- SEED-TABLE-BEGIN -->.*<!-- SEED-TABLE-END -->", "<!-- SEED-TABLE-BEGIN -->\n" + table + "\n<!-- SEED-TABLE-END -->", s)
open(f"{V}/DESIGN.md", "w").write(s)
print(len(rows) - 2, "seeds;", sum(1 for r in rows[2:] if "| - |" not in r.split("|")[4:5][0] if True))
