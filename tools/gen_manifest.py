#!/usr/bin/env python3
"""Regenerate /verif/MANIFEST.json from the table below (run after adding a check)."""
import json
import os

HERE = os.path.dirname(os.path.dirname(os.path.abspath(__file__)))
B = ("Bounded symbolic checking (engine B): the real symmray+numpy code is executed on blocks whose entries are z3 terms; "
     "every structure in a stated bound is enumerated, the data (and every data-dependent branch) is solver-quantified; "
     "z3 returns unsat for the negated obligation (holds for all values) or a model that is replayed on ordinary numpy blocks before it is reported.")
A = ("CrossHair symbolic execution (z3) of the real Python source of the structural kernels; a condition is discharged only on "
     "'Confirmed over all paths'; each has a reachability twin; counterexamples are replayed with plain Python.")
NOTE_B = ("Trusted: z3, numpy object-array semantics, vlib.zt term arithmetic (validated against numpy on every run), the independent oracles in vlib/. "
          "Reals stand for floats; bounds (ranks, charges per index, block sizes) are in the evidence file; outside them nothing is claimed.")
NOTE_A = "Trusted: CrossHair 0.0.110 + z3; bounds on the number of indices / universe sizes are in the evidence file."

CHECKS = {
    "C01": dict(text=B + " One inductive step of the validity invariant from arbitrary audited pre-states for every public operation; the audit is written from the property statement, not the library's check(). " + A, note=NOTE_B + " " + NOTE_A,
                tech="z3-term symbolic execution of every public op from enumerated audited pre-states + independent audit; CrossHair lemmas for unbounded charges", ref="§4 C01", engine="B+A"),
    "C02": dict(text=B + " Reference: numpy's own tensordot/einsum/trace on independently densified operands.", note=NOTE_B,
                tech="z3-term symbolic execution of tensordot/matmul/trace/einsum vs dense reference (SMT-decided polynomial identities)", ref="§4 C02", engine="B"),
    "C03": dict(text=B + " Reference: an independent dense graded-tensor calculus (inversion-count Koszul sign, ket-then-bra contraction sign, dummy odd legs, label canonicalisation). " + A, note=NOTE_B + " " + NOTE_A,
                tech="z3-term symbolic execution of fermionic transpose/tensordot/@/trace/einsum vs graded-tensor oracle; CrossHair on calc_phase_permutation", ref="§4 C03", engine="B+A"),
    "C04": dict(text=B + " Every contraction route / operand order / axis listing / pre-transpose of each enumerated network must give identical polynomials and labels, equal to an independent graded-tensor evaluation. " + A, note=NOTE_B + " " + NOTE_A + " For networks holding conjugate labels values are compared in the fully annihilated label normal form (the library may leave non-adjacent conjugate pairs on intermediates).",
                tech="z3-term symbolic execution of chained fermionic tensordot over all routes vs graded oracle; CrossHair on label order and resolve_combined_oddpos", ref="§4 C04", engine="B+A"),
    "C05": dict(text=B + " Every input entry is a distinct variable; the oracle locates it through the result's own sub-index table; unfuse must restore every entry; insert and concat must agree. " + A, note=NOTE_B + " " + NOTE_A,
                tech="z3-term symbolic execution of fuse/unfuse (both strategies, cache on/off) + CrossHair on calc_fuse_group_info/accum_for_split", ref="§4 C05", engine="B+A"),
    "C06": dict(text=B + " blockwise = fused = auto (rank, deep index tables, labels, values); pre-fused free legs stay fused; align+fuse contracted legs (insert/concat)+single-pair contraction equals the k-pair contraction; fusing free legs before equals after.", note=NOTE_B,
                tech="z3-term symbolic execution of contraction strategies and fuse/contract commutation", ref="§4 C06", engine="B"),
    "C07": dict(text=A + " calc_reshape_args with symbolic sizes / merge pattern / drop pattern against an independent shape simulator, forward and reverse. " + B + " Every merge/drop target and back, plus targets that insert a size-one axis (alone or while re-splitting a fused axis) held to the general clauses; content preserved (each input variable exactly once up to sign); three call routes agree.", note=NOTE_A + " " + NOTE_B,
                tech="CrossHair on calc_reshape_args + z3-term symbolic execution of reshape round trips", ref="§4 C07", engine="A+B"),
    "C08": dict(text=B + " Each operation through every call route; an operation may raise (all routes alike) but never return another value.", note=NOTE_B,
                tech="z3-term symbolic execution of each op vs the op on the densified operand; path controller for abs/min/max/clip", ref="§4 C08", engine="B"),
    "C09": dict(text=B + " Relational inductive step: every operation on an array with an arbitrary pending-sign table and on its hand-synchronised twin (same variables) must give equal values (including decompositions' products and solve under memoised LAPACK contract stubs); phase_sync is idempotent and value-preserving.", note=NOTE_B + " Raw-storage accessors are excluded (their meaning is the stored representation).",
                tech="z3-term relational symbolic execution (lazy vs synchronised twin) of every fermionic op", ref="§4 C09", engine="B"),
    "C10": dict(text=B + " Complex entries as pairs of real terms; norm identities for conj/dagger in both operand orders and both option values; adjoint laws; doubled 2-3 tensor networks along sampled routes against the independent graded value of the ket network.", note=NOTE_B + " Involution is claimed for default options only; 3-tensor networks use real entries.",
                tech="z3-term symbolic execution (complex) of conj/dagger/tensordot norm identities and doubled networks vs graded oracle", ref="§4 C10", engine="B"),
    "C11": dict(text=B + " LAPACK is replaced by contract stubs (fresh symbolic factors constrained only by the documented contract); the library's block bookkeeping, sign handling (stabilised QR on the real _sgn path), bond construction and charge arithmetic run for real; reconstruction through the library's own contraction, orthonormality, triangularity, ordering, bond structure and solve are decided under the contracts (linear abstraction over monomials, then nlsat).", note=NOTE_B + " Assumes LAPACK meets its contract (validated numerically every run); blocks <= 2x2.",
                tech="z3-term symbolic execution with LAPACK contract stubs; path controller for the stabilised-QR sign splits", ref="§4 C11", engine="B"),
    "C12": dict(text=B + " Algebraic certificates at the level of the dense matrix under the LAPACK contract stubs (Ud^H Ud = I, Vd Vd^H = I, sd >= 0, Ud diag(sd) Vd = dense(x); eigh and solve likewise; norm^2 = sum |entries|^2).", note=NOTE_B + " The step from certificate to 'is the spectrum / the solution' is the textbook uniqueness theorem (trusted, unmechanised).",
                tech="z3-term symbolic execution with LAPACK contract stubs; dense-level SVD/eigh/solve certificates", ref="§4 C12", engine="B"),
    "C13": dict(text=B + " svd_truncated on symbolic singular values and a symbolic cutoff: the real sort/cumsum/count_nonzero/indexing run on terms, every branch is decided by the solver; on every feasible path the kept set equals an independent statement of the six rules intersected with the bond limit, the untruncated decomposition reproduces the input through the library's contraction, kept slices are term-identical to the untruncated factors, monotone in the cutoff, absorb variants agree; the bond-split kernel for a symbolic integer limit.", note=NOTE_B + " Assumes pairwise distinct positive singular values; <=4 values (5 thorough).",
                tech="forking z3-term symbolic execution of svd_truncated with SVD contract stub vs independent rule specification", ref="§4 C13", engine="B"),
    "C14": dict(text=B + " Operand snapshots (terms in order, tables, signs, labels) before/after every op; inplace=True equals out-of-place; out-of-place op followed by in-place follow-ups on the result leaves the operand unchanged.", note=NOTE_B,
                tech="z3-term symbolic execution with operand snapshots; before==after obligations", ref="§4 C14", engine="B"),
    "C15": dict(text=B + " History/cache clause: for families of near-identical arrays (one attribute changed, incl. sub-index structure) every ordered pair of calls under cache sizes 1, 2 and default must reproduce the cache-free result exactly. " + A + " (default-mode context manager restored on normal and exceptional exit for every nesting depth <=3).", note=NOTE_B + " " + NOTE_A + " The thread-schedule clause of C15 is NOT claimed (not applicable to solver-based checking of this code: see not_applicable).",
                tech="z3-term symbolic execution of fuse/reshape/contraction under warmed, evicting and disabled fuse caches; CrossHair on the mode context manager", ref="§4 C15, §5", engine="B+A"),
    "C16": dict(text=B + " All constructors with every documented combination of omitted arguments must agree; arbitrary dense arrays (all entries distinct variables) under arbitrary labelings must round-trip to their projection.", note=NOTE_B,
                tech="z3-term symbolic execution of constructors/from_dense/to_dense vs independent placement and projection oracle", ref="§4 C16", engine="B"),
    "C17": dict(text=A + " Group laws for all valid charges (unbounded integers for U1/U1U1); sector enumeration against a brute-force filter.", note=NOTE_A,
                tech="CrossHair/z3 symbolic execution of Symmetry classes and gen_valid_sectors", ref="§4 C17", engine="A"),
}

CHECKS["C18"] = dict(text=B + " Symbolic coefficients flow through the real builders (object-array zeros backend); every element equals the vacuum expectation value of an independent Jordan-Wigner Fock oracle; the five model builders equal the documented Hamiltonians; tensordot(G, psi) acts as D.O.D with a basis-only sign D; two operators in succession equal the product operator.", note=NOTE_B + " Hermitian => Hermitian map with exact spectrum follows from D = D^-1 (trusted step).",
                     tech="z3-term symbolic execution of local-operator builders vs Fock-space oracle (linear identities in symbolic coefficients and amplitudes)", ref="§4 C18", engine="B")

CHECKS["C19"] = dict(text=A + " Symbolic graphs on 4 sites (edge present / listed reversed); the edge-wise builders with the two-site builder replaced by a recorder; parse_edges_to_site_info. " + B + " End to end: the edge terms (spinless on all graphs <=3 sites, spinful on small graphs) applied to a symbolic state and summed equal the Fock-space lattice Hamiltonian applied to it.", note=NOTE_A + " " + NOTE_B,
                     tech="CrossHair on edge/site bookkeeping + z3-term end-to-end application vs Fock-space lattice Hamiltonian", ref="§4 C19", engine="A+B")

CHECKS["C20"] = dict(text=B + " PARTIAL: decided by the cast trap of the term layer - zero blocks created to fill missing sectors have the type of the data they join (a machine-typed zero array shows up as a cast of a symbolic entry or as machine numbers among the terms; replayed in single precision where the wrong dtype is visible), and the imaginary part is never discarded (value identities with complex terms; real arrays meeting complex factors; sums of real and complex arrays followed by every zero-block-creating operation, with concrete float64 blocks in front of symbolic complex data; complex coefficients through the local-operator builders, whose real accumulation buffer is modelled by an object array that traps complex writes).", note=NOTE_B + " The dtype-promotion clause (float32/complex64 stay un-promoted through numpy's type resolution, real parts for spectra) is NOT claimed: not applicable to solver-based checking (see not_applicable).",
                     tech="z3-term symbolic execution with cast trap for machine-typed zero blocks and discarded imaginary parts; single-precision replay", ref="§4 C20, §5", engine="B")

ALL = [f"C{i:02d}" for i in range(1, 21)]
NA_PARTIAL = {
    "C20": "dtype-promotion clause only (float32 stays float32, complex64 stays complex64 through every ufunc/concatenate/LAPACK call; real parts for singular values and eigenvalues): it is a statement about numpy's C-level type resolution; symbolic values cannot carry a machine dtype through real numpy and a hand model of the promotion table would verify the model, not the code. The zero-block-type and imaginary-part clauses ARE claimed by the C20 check",
    "C15": "thread-schedule clause only: concurrent out-of-place calls from several threads are not decided here - CrossHair is single-threaded and models no scheduler, the shared state is mutated through C-level container operations whose atomicity comes from the GIL, and a hand-written interleaving model would verify the model, not the code (DESIGN.md section 5); the history/cache/configuration clauses ARE claimed by the C15 check",
}
NA_REASON = {
    "C15": None,
    "C20": None,
}


def main():
    extra = {}
    p = os.path.join(HERE, "tools", "manifest_table.json")
    if os.path.exists(p):
        extra = json.load(open(p))
    checks = dict(CHECKS)
    checks.update(extra.get("checks", {}))
    na = dict(extra.get("not_applicable", {}))
    m = {
        "version": 1,
        "setup_cmd": "./setup.sh",
        "hooks": {"guard": "SYMMRAY_VERIF", "enable": "no hooks are needed: both engines drive /repo's working tree from outside (VERIF_REPO selects another tree)",
                  "baseline_off_cmd": "cd /repo && /venv/bin/python -m pytest -ra -q -p no:cacheprovider --timeout=900 --continue-on-collection-errors",
                  "source_commits": [], "add_only": True},
        "engines": [
            {"name": "B", "path": "vlib/zt.py, vlib/session.py", "serves_properties": sorted(k for k, v in checks.items() if "B" in v["engine"]),
             "kind_free_text": "z3-term execution of the real API inside numpy object arrays + forking path controller + contract stubs for LAPACK"},
            {"name": "A", "path": "vlib/xh.py, harness/", "serves_properties": sorted(k for k, v in checks.items() if "A" in v["engine"]),
             "kind_free_text": "CrossHair (symbolic execution of Python with z3) on pure structural kernels"},
        ],
        "checks": [],
        "notes": "Exit codes: 0 held on everything explored; 1 replayed violation (VIOLATION line); 3 harness error. See DESIGN.md.",
        "not_applicable": [],
    }
    for pid in ALL:
        if pid in checks:
            c = checks[pid]
            m["checks"].append({
                "property_id": pid,
                "quick_cmd": f"./check {pid} --tier quick",
                "thorough_cmd": f"./check {pid} --tier thorough",
                "evidence_file": f"/verif/evidence/{pid}.json",
                "replay_cmd_template": f"./check {pid} --replay {{path}}",
                "engine": c["engine"],
                "level_claimed": {"category": "other", "text": c["text"], "design_ref": c["ref"]},
                "level_note": c["note"],
                "technique": c["tech"],
            })
        else:
            m["not_applicable"].append({"property_id": pid, "reason": na.get(pid, "check not built yet in this round (planned per DESIGN.md); nothing is claimed for it")})
    for pid, reason in NA_PARTIAL.items():
        if pid in checks:
            m["not_applicable"].append({"property_id": pid, "reason": reason})
    json.dump(m, open(os.path.join(HERE, "MANIFEST.json"), "w"), indent=1)
    print("checks:", [c["property_id"] for c in m["checks"]])


if __name__ == "__main__":
    main()
