#!/bin/sh
# tools/confirm_seed.sh <PROP> <mut> <srcdir>   — confirm a seeded change in a scratch worktree of /repo HEAD:
#   tests pass with patch, demo fails with patch, demo passes without.  Stores it under /verif/seeded/<PROP>-<mut>/.
set -u
P=$1; M=$2; SRC=$3
WT=/tmp/seedwt_$$
git -C /repo worktree add --detach $WT HEAD -q || exit 2
trap 'git -C /repo worktree remove --force $WT' EXIT
cd $WT
mkdir -p $WT/out; cp -r $SRC $WT/out/$M
( /venv/bin/python out/$M/demo.py >/dev/null 2>&1 ); CLEAN=$?
git apply out/$M/patch.diff || { echo "PATCH DOES NOT APPLY"; exit 2; }
TESTS=$(/venv/bin/python -m pytest -q -p no:cacheprovider -n 8 2>&1 | tail -1)
( /venv/bin/python out/$M/demo.py >/dev/null 2>&1 ); MUT=$?
git checkout -- . 
echo "$P-$M: demo clean=$CLEAN mutated=$MUT tests: $TESTS"
case "$TESTS" in *failed*|*error*) echo "TESTS FAIL"; exit 1;; esac
if [ $CLEAN -eq 0 ] && [ $MUT -ne 0 ]; then
  D=/verif/seeded/$P-$M; mkdir -p $D
  cp out/$M/patch.diff out/$M/demo.py $D/; [ -f out/$M/notes.md ] && cp out/$M/notes.md $D/
  echo "confirmed -> $D"
else
  echo "NOT CONFIRMED"; exit 1
fi
