#!/usr/bin/env python3
"""Run seeded changes against checks, each in its own scratch worktree of /repo HEAD (VERIF_REPO),
three at a time.  usage: tools/seed_matrix.py [seed[:PID,PID...]] ...   (default: every seed vs its own property)
Writes /verif/seeded/matrix.json (seed -> {pid: exit code, summary})."""
import json
import os
import subprocess
import sys
import tempfile
from concurrent.futures import ThreadPoolExecutor

V = "/verif"


def run(seed, pid):
    wt = tempfile.mkdtemp(prefix=f"sm_{seed}_{pid}_", dir="/tmp")
    out = tempfile.mkdtemp(prefix=f"smo_{seed}_{pid}_", dir="/tmp")
    os.rmdir(wt)
    try:
        subprocess.run(["git", "-C", "/repo", "worktree", "add", "--detach", wt, "HEAD", "-q"], check=True)
        r = subprocess.run(["git", "-C", wt, "apply", f"{V}/seeded/{seed}/patch.diff"], capture_output=True, text=True)
        if r.returncode:
            return seed, pid, {"exit": None, "summary": "patch does not apply: " + r.stderr[:200]}
        env = dict(os.environ, VERIF_REPO=wt, VERIF_OUT=out, VERIF_JOBS="5")
        p = subprocess.run([f"{V}/check", pid, "--tier", "quick"], capture_output=True, text=True, env=env, cwd=V)
        lines = [l for l in p.stdout.splitlines() if l.startswith(pid + " quick")]
        nviol = sum(1 for l in p.stdout.splitlines() if l.startswith("VIOLATION"))
        return seed, pid, {"exit": p.returncode, "summary": (lines[-1] if lines else p.stdout[-300:] + p.stderr[-300:]), "violation_lines": nviol}
    finally:
        subprocess.run(["git", "-C", "/repo", "worktree", "remove", "--force", wt], capture_output=True)
        subprocess.run(["rm", "-rf", out, wt])


def main():
    seeds = sorted(d for d in os.listdir(f"{V}/seeded") if os.path.isdir(f"{V}/seeded/{d}"))
    jobs = []
    args = sys.argv[1:]
    if args:
        for a in args:
            if ":" in a:
                s, ps = a.split(":")
                jobs += [(s, p) for p in ps.split(",")]
            else:
                jobs.append((a, a.split("-")[0]))
    else:
        jobs = [(s, s.split("-")[0]) for s in seeds]
    mpath = f"{V}/seeded/matrix.json"
    M = json.load(open(mpath)) if os.path.exists(mpath) else {}
    with ThreadPoolExecutor(max_workers=3) as ex:
        for seed, pid, res in ex.map(lambda j: run(*j), jobs):
            M.setdefault(seed, {})[pid] = res
            print(seed, pid, res["exit"], res["summary"][:160], flush=True)
            json.dump(M, open(mpath, "w"), indent=1, sort_keys=True)


if __name__ == "__main__":
    main()
