#!/bin/sh
# tools/regress.sh <seed> [out-dir]  — every quick check once on the current /repo; prints exit code + summary line
SEED=${1:-0}; OUT=${2:-}
cd /verif
for p in C01 C02 C03 C04 C05 C06 C07 C08 C09 C10 C11 C12 C13 C14 C15 C16 C17 C18 C19 C20; do
  if [ -n "$OUT" ]; then export VERIF_OUT=$OUT; fi
  START=$(date +%s)
  VERIF_SEED=$SEED ./check $p --tier quick > /tmp/regress_$p.log 2>&1; RC=$?
  END=$(date +%s)
  echo "$p exit=$RC $((END-START))s $(grep "^$p quick" /tmp/regress_$p.log | cut -c1-200)"
  grep -c "^VIOLATION" /tmp/regress_$p.log | sed 's/^/   violation lines: /'
done
