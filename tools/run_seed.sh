#!/bin/sh
# tools/run_seed.sh <seed dir name> <check args...>  — apply a seeded change to /repo, run a check, undo it.
S=/verif/seeded/$1; shift
git -C /repo diff --quiet || { echo "/repo not clean"; exit 2; }
git -C /repo apply $S/patch.diff || exit 2
cd /verif && ./check "$@"; RC=$?
git -C /repo checkout -- .
echo "exit=$RC"
exit $RC
