#!/bin/sh
# Build the overlay interpreter used by every check: /venv's packages + /repo on the path,
# plus crosshair-tool / z3-solver from the offline wheelhouse.  Idempotent, offline.
set -e
cd "$(dirname "$0")"
V=/verif/.venv
if [ -x "$V/bin/python" ] && "$V/bin/python" -c "import z3, crosshair, numpy, autoray, jsonschema" 2>/dev/null; then
  exit 0
fi
rm -rf "$V"
/venv/bin/python -m venv "$V"
SP=$("$V/bin/python" -c "import sysconfig; print(sysconfig.get_paths()['purelib'])")
# /venv's site-packages are appended; symmray itself is imported from $VERIF_REPO (default /repo)
# by vlib.env, which puts it first on sys.path.
printf "import site; site.addsitedir('/venv/lib/python3.12/site-packages')\n" > "$SP/zz_venv_overlay.pth"
PIP_NO_INDEX=1 "$V/bin/python" -m pip install -q --no-index --find-links /opt/veriftools/wheels crosshair-tool z3-solver jsonschema >/dev/null
"$V/bin/python" -c "import z3, crosshair, numpy, autoray, jsonschema; print('overlay ok', z3.get_version_string())"
